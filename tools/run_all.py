#!/usr/bin/env python3
import subprocess, sys, time
sys.path.insert(0, '/verif')
import props
tier = sys.argv[1] if len(sys.argv) > 1 else 'quick'
extra = sys.argv[2:]
for p in sorted(props.PROPS):
    t = time.time()
    r = subprocess.run(['./check', p, '--tier', tier] + extra, cwd='/verif', capture_output=True, text=True)
    lines = [l for l in r.stdout.splitlines() if l.startswith(('OK', 'VIOLATION', 'KNOWN'))]
    und = [l for l in r.stderr.splitlines() if l.startswith('UNDECIDED')]
    print(p, 'rc=%d' % r.returncode, '%ds' % (time.time() - t), ' | '.join(lines + und)[:300], flush=True)
