#!/usr/bin/env python3
"""Regenerate /verif/MANIFEST.json from props.py (single source of truth for what is claimed)."""
import json, os, sys
HERE = os.path.dirname(os.path.abspath(__file__))
VERIF = os.path.dirname(HERE)
sys.path.insert(0, VERIF)
import props

checks = []
for pid in sorted(props.PROPS):
    p = props.PROPS[pid]
    checks.append(dict(
        property_id=pid,
        quick_cmd='./check %s --tier quick' % pid,
        thorough_cmd='./check %s --tier thorough' % pid,
        evidence_file='evidence/%s.json' % pid,
        replay_cmd_template='./check %s --replay {path}' % pid,
        engine='contracts',
        level_claimed=dict(category=p.get('level', 'proof'), text=p['explanation'], design_ref=p.get('design_ref', 'DESIGN.md section 3')),
        level_note='; '.join(p.get('trusted_base', []) + p.get('assumptions', [])),
        technique=p.get('technique', 'contract-based deductive verification (Verus on mechanically extracted verbatim functions; Kani/CBMC contracts on the real crate)'),
    ))
m = dict(
    version=1,
    setup_cmd='./setup.sh',
    hooks=dict(guard='kani', enable='none needed: harness modules are attached to a scratch snapshot of /repo under cfg(kani), which only Kani sets; /repo carries no hook commits',
               baseline_off_cmd='cd /repo && cargo test --workspace --no-fail-fast --offline',
               source_commits=props.FIX_COMMITS, add_only=True),
    engines=[dict(name='contracts', path='tools/run_check.py', serves_properties=sorted(props.PROPS),
                  kind_free_text='contract-based deductive verification: Verus (z3) on functions extracted verbatim from /repo on every run + Kani/CBMC harnesses attached to a snapshot of the real crate')],
    checks=checks,
    notes='Exit 0 = all obligations discharged; exit 1 + VIOLATION line = an obligation of the contract fails; exit 2 = undecided (lost anchor, unsupported construct, timeout) and is never an alarm. See DESIGN.md.',
    not_applicable=[dict(property_id=k, reason=v) for k, v in sorted(props.NOT_APPLICABLE.items())],
)
json.dump(m, open(os.path.join(VERIF, 'MANIFEST.json'), 'w'), indent=1)
print('MANIFEST.json: %d checks, %d not applicable' % (len(checks), len(m['not_applicable'])))
