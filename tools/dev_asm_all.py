"""Development aid: sha256 prefix of every assembled unit text (to check that a framework change leaves the units of the unchanged tree byte-identical)."""
import sys, os, glob, hashlib, importlib
sys.path.insert(0,'/verif/tools'); sys.path.insert(0,'/verif/verus/units')
import vunit
root = sys.argv[1] if len(sys.argv)>1 else '/repo'
out = {}
for f in sorted(glob.glob('/verif/verus/units/c*.py')):
    n = os.path.basename(f)[:-3]
    if n == 'common': continue
    u = importlib.import_module(n)
    try:
        a = vunit.assemble(u, root)
        out[n] = hashlib.sha256(a.text.encode()).hexdigest()[:12]
    except Exception as e:
        out[n] = 'ERR %s' % str(e)[:80]
for k,v in out.items(): print(k, v)
