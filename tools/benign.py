#!/usr/bin/env python3
"""False-alarm probe: apply semantics-preserving edits to a scratch copy of /repo and run the
(Verus part of the) check; exit 1 on any of them is a false alarm, exit 2 is acceptable."""
import os, re, shutil, subprocess, sys, tempfile
EDITS = [
    ('C03', 'src/rpm/package.rs', [('md5_declared', 'md5_recorded'), ('header_digest_sha1', 'sha1_of_header')]),
    ('C03', 'src/rpm/package.rs', [('        let payload_digest_val = self', '        let _unused_marker = 0u8;\n        let payload_digest_val = self')]),
    ('C02', 'src/rpm/package.rs', [('signature_header_only', 'sig_hdr_only')]),
    ('C07', 'src/rpm/payload.rs', [('let limit = ', 'let max_len = '), ('[..limit]', '[..max_len]'), ('if limit > 0', 'if max_len > 0')]),
    ('C16', 'src/rpm/package.rs', [('sig_header_size', 'sig_size'), ('payload_start', 'pay_start')]),
    ('C01', 'src/rpm/headers/header.rs', [('let size_rest', 'let rest_size'), ('take(size_rest)', 'take(rest_size)'), ('< size_rest', '< rest_size')]),
    ('C10', 'src/rpm/package.rs', [('header_digest_sha256', 'hdr_sha256')]),
    ('C20', 'src/rpm/timestamp.rs', [('let t = dt', 'let secs = dt'), ('if t < 0', 'if secs < 0'), ('        t.try_into()', '        secs.try_into()')]),
    ('C18', 'src/rpm/headers/types.rs', [('let file_type = raw_mode & FILE_TYPE_BIT_MASK;\n        let permissions = raw_mode & PERMISSIONS_BIT_MASK;', 'let permissions = raw_mode & PERMISSIONS_BIT_MASK;\n        let file_type = raw_mode & FILE_TYPE_BIT_MASK;')]),
    ('C17', 'src/rpm/compressor.rs', [('level_in_range', 'level_ok_')]),
    ('C09', 'src/rpm/headers/header.rs', [('let store_size = store.len();', 'let store_len_ = store.len();'), ('store_size as u32', 'store_len_ as u32')]),
    # units added later
    ('C15', 'src/version.rs', [('let (nev, ra) = nevra', 'let (head, ra) = nevra'), ('match nev.rsplit_once', 'match head.rsplit_once'), ('None => (nev, ra, "")', 'None => (head, ra, "")')]),
    ('C15', 'src/version.rs', [('let (epoch, vr) = evr.split_once', 'let (ep, vr) = evr.split_once'), ('        (epoch, version, release)\n    }\n}\n\nimpl<\'a> From', '        (ep, version, release)\n    }\n}\n\nimpl<\'a> From')]),
    ('C19', 'src/rpm/filecaps.rs', [('let index = match part.find', 'let op_at = match part.find'), ('if index == 0 &&', 'if op_at == 0 &&'), ('&part[..index]', '&part[..op_at]'), ('&part[index..]', '&part[op_at..]')]),
    ('C19', 'src/rpm/filecaps.rs', [('let mut last_ch = None;', 'let mut prev = None;'), ('match last_ch {', 'match prev {'), ('debug_assert!(last_ch.is_some())', 'debug_assert!(prev.is_some())'), ('last_ch = Some(ch);', 'prev = Some(ch);')]),
    ('C06', 'src/rpm/builder.rs', [('let base_name = pb', 'let file_part = pb'), ('            base_name,\n', '            base_name: file_part,\n')]),
    ('C17', 'src/rpm/builder.rs', [('let pb = PathBuf::from(dest.clone());', 'let pbuf = PathBuf::from(dest.clone());'), ('let parent = pb.parent()', 'let parent = pbuf.parent()'), ('let base_name = pb\n', 'let base_name = pbuf\n')]),
    ('C11', 'src/rpm/builder.rs', [('for user in &users_to_create {\n            self.recommends.push(Dependency::user(user));', 'for owner in &users_to_create {\n            self.recommends.push(Dependency::user(owner));')]),
    ('C10', 'src/rpm/package.rs', [('let new_key_ids: Vec<String>', 'let ids_of_this_sig: Vec<String>'), ('if new_key_ids.len() != 1', 'if ids_of_this_sig.len() != 1'), ('new_key_ids.len().try_into().unwrap()', 'ids_of_this_sig.len().try_into().unwrap()'), ('key_ids.extend(new_key_ids);', 'key_ids.extend(ids_of_this_sig);')]),
    ('C05', 'src/rpm/headers/header.rs', [('IndexData::Int32(s) => s.first().copied(),', 'IndexData::Int32(values) => values.first().copied(),')]),
    ('C06', 'src/rpm/builder.rs', [('            file_rdevs.push(0);\n            file_devices.push(1);', '            file_devices.push(1);\n            file_rdevs.push(0);')]),
    # units added last
    ('C12', 'src/rpm/package.rs', [('let mut links: Vec<PathBuf> = Vec::new();', 'let mut links: Vec<PathBuf> = Vec::with_capacity(0);')]),
    ('C12', 'src/rpm/package.rs', [('    let mut relative = PathBuf::new();\n    for component in path.components() {', '    let mut relative = PathBuf::new();\n    for part in path.components() {'), ('        match component {\n            std::path::Component::RootDir', '        match part {\n            std::path::Component::RootDir')]),
    ('C13', 'src/version.rs', [('let ordering = prefix1.len().cmp(&prefix2.len());', 'let by_length = prefix1.len().cmp(&prefix2.len());'), ('                    if ordering != Ordering::Equal {\n                        return ordering;\n                    }\n                    let ordering = prefix1.cmp(prefix2);', '                    if by_length != Ordering::Equal {\n                        return by_length;\n                    }\n                    let ordering = prefix1.cmp(prefix2);')]),
    ('C13', 'src/version.rs', [('(Some(_), None) => return Ordering::Less,\n            (None, Some(_)) => return Ordering::Greater,\n            (Some(a), Some(b)) => {\n                version1_part = a;\n                version2_part = b;\n                continue;\n            }\n            _ => (),\n        }\n\n        // if two strings', '(None, Some(_)) => return Ordering::Greater,\n            (Some(_), None) => return Ordering::Less,\n            (Some(a), Some(b)) => {\n                version1_part = a;\n                version2_part = b;\n                continue;\n            }\n            _ => (),\n        }\n\n        // if two strings')]),
    ('C09', 'src/rpm/headers/header.rs', [('                let mut alignment = 0;\n                while store.len() % 4 > 0 {\n                    store.push(0);\n                    alignment += 1;', '                let mut alignment = 0;\n                while store.len() % 4 != 0 {\n                    store.push(0);\n                    alignment += 1;')]),
    ('C07', 'src/rpm/payload.rs', [('        let name_len = self.name.len() + 1;\n        header.extend(format!("{:08x}", name_len).as_bytes());', '        let name_len = self.name.len() + 1;\n        let name_len_field = format!("{:08x}", name_len);\n        header.extend(name_len_field.as_bytes());')]),
    ('C05', 'src/rpm/package.rs', [('let (basename, dir_index) = item;', 'let (base, dir_index) = item;'), ('acc.push(Path::new(dir).join(basename));', 'acc.push(Path::new(dir).join(base));')]),
    ('C06', 'src/rpm/builder.rs', [('for d in self.requires.into_iter() {\n            require_names.push(d.name);\n            require_flags.push(d.flags.bits());\n            require_versions.push(d.version);', 'for d in self.requires.into_iter() {\n            require_flags.push(d.flags.bits());\n            require_names.push(d.name);\n            require_versions.push(d.version);')]),
    ('C19', 'src/rpm/filecaps.rs', [('    if s.is_empty() || s.eq_ignore_ascii_case("all") {\n        return Ok(());\n    }', '    if s.eq_ignore_ascii_case("all") || s.is_empty() {\n        return Ok(());\n    }')]),
    ('C15', 'src/version.rs', [('let (release, arch) = ra.rsplit_once(\'.\').unwrap_or((ra, ""));\n\n        (name, epoch, version, release, arch)', 'let (rel, arch) = ra.rsplit_once(\'.\').unwrap_or((ra, ""));\n        let release = rel;\n\n        (name, epoch, version, release, arch)')]),
    # structural (not just renaming) semantics-preserving edits
    ('C16', 'src/rpm/headers/header.rs', [('        self.index_entries.clear();\n        self.index_header.data_section_size = 0;\n        self.index_header.num_entries = 0;', '        self.index_header.num_entries = 0;\n        self.index_header.data_section_size = 0;\n        self.index_entries.clear();')]),
    ('C12', 'src/rpm/package.rs', [('            if links.iter().any(|link| file_path.starts_with(link)) {', '            let through_link = links.iter().any(|link| file_path.starts_with(link));\n            if through_link {')]),
    ('C19', 'src/rpm/filecaps.rs', [('        if index == 0 && !part.starts_with(\'=\') {', '        if !part.starts_with(\'=\') && index == 0 {')]),
    ('C15', 'src/version.rs', [('        let (epoch, version) = ev.split_once(\':\').unwrap_or(("", ev));\n        let (release, arch) = ra.rsplit_once(\'.\').unwrap_or((ra, ""));', '        let (release, arch) = ra.rsplit_once(\'.\').unwrap_or((ra, ""));\n        let (epoch, version) = ev.split_once(\':\').unwrap_or(("", ev));')]),
    ('C13', 'src/version.rs', [('        if version1_part.is_empty() || version2_part.is_empty() {\n            break;\n        }', '        if version2_part.is_empty() || version1_part.is_empty() {\n            break;\n        }')]),
    ('C11', 'src/rpm/builder.rs', [('        let build_time = match self.source_date {\n            Some(t) if t < now => t,\n            _ => now,\n        };', '        let build_time = match self.source_date {\n            Some(t) if t < now => t,\n            Some(_) => now,\n            None => now,\n        };')]),
    ('C06', 'src/rpm/builder.rs', [('        if let Some(vendor) = self.vendor {\n            actual_records.push(IndexEntry::new(\n                IndexTag::RPMTAG_VENDOR,\n                offset,\n                IndexData::StringTag(vendor),\n            ));\n        }', '        match self.vendor {\n            Some(vendor) => actual_records.push(IndexEntry::new(\n                IndexTag::RPMTAG_VENDOR,\n                offset,\n                IndexData::StringTag(vendor),\n            )),\n            None => {}\n        }')]),
    ('C17', 'src/rpm/compressor.rs', [('            CompressionWithLevel::Bzip2(level) => 1 <= level && level <= 9,', '            CompressionWithLevel::Bzip2(level) => level >= 1 && level <= 9,')]),
    ('C07', 'src/rpm/payload.rs', [('        let remaining = self.file_size - self.bytes_read;\n        if remaining > 0 {', '        let remaining = self.file_size - self.bytes_read;\n        if remaining != 0 {')]),
    ('C05', 'src/rpm/package.rs', [('                            if let Some(dir) = dirs.get(dir_index as usize) {\n                                acc.push(Path::new(dir).join(basename));\n                                Ok(acc)\n                            } else {', '                            if let Some(dir) = dirs.get(dir_index as usize) {\n                                let full = Path::new(dir).join(basename);\n                                acc.push(full);\n                                Ok(acc)\n                            } else {')]),
    ('C10', 'src/rpm/package.rs', [('                if new_key_ids.len() != 1 {', '                if 1 != new_key_ids.len() {')]),
    ('C18', 'src/rpm/headers/types.rs', [('permissions & PERMISSIONS_BIT_MASK', 'PERMISSIONS_BIT_MASK & permissions')]),
    # a few lines moved into a new private helper function (R45 inlines an uncontracted helper at its call site)
    ('C03', 'src/rpm/package.rs', [('            if md5_declared != header_and_content_digest_md5 {', '            if digests_differ(md5_declared, header_and_content_digest_md5.as_slice()) {'),
                                   ('#[derive(Clone, Debug, PartialEq)]\npub struct PackageMetadata {', 'fn digests_differ(declared: &[u8], computed: &[u8]) -> bool {\n    declared != computed\n}\n\n#[derive(Clone, Debug, PartialEq)]\npub struct PackageMetadata {')]),
    ('C16', 'src/rpm/headers/header.rs', [('        (8 - (self.index_header.data_section_size % 8)) % 8\n', '        pad_to_8(self.index_header.data_section_size)\n'),
                                          ('impl fmt::Display for Header<IndexSignatureTag> {', 'fn pad_to_8(size: u32) -> u32 {\n    (8 - (size % 8)) % 8\n}\n\nimpl fmt::Display for Header<IndexSignatureTag> {')]),
    ('C03', 'src/rpm/package.rs', [('            if sha256 != header_digest_sha256 {', '            if !same_text(sha256, &header_digest_sha256) {'),
                                   ('#[derive(Clone, Debug, PartialEq)]\npub struct PackageMetadata {', 'fn same_text(declared: &str, computed: &str) -> bool {\n    declared.len() == computed.len() && declared.as_bytes().iter().zip(computed.as_bytes().iter()).all(|(a, b)| a == b)\n}\n\n#[derive(Clone, Debug, PartialEq)]\npub struct PackageMetadata {')]),
    # other ways of writing the same thing that the rules R47 / the cpio block must accept
    ('C15', 'src/version.rs', [("        let (epoch, vr) = evr.split_once(':').unwrap_or((\"\", evr));", "        let (epoch, vr) = match evr.find(':') {\n            Some(i) => (&evr[..i], &evr[i + 1..]),\n            None => (\"\", evr),\n        };")]),
    ('C11', 'src/rpm/builder.rs', [('                    .ino(ino_index)\n', '                    .ino(ino_index)\n                    .mtime(mtime.into())\n')]),
]
if len(sys.argv) > 2 and sys.argv[1] == '--last':
    EDITS = EDITS[-int(sys.argv[2]):]
bad = 0
for prop, rel, subs in EDITS:
    d = tempfile.mkdtemp(prefix='benign-', dir='/var/tmp')
    try:
        subprocess.run(['rsync', '-a', '--exclude', '/target', '--exclude', '/.git', '/repo/', d + '/'], check=True)
        p = os.path.join(d, rel)
        s = open(p).read()
        for a, b in subs:
            if a not in s:
                print('  (edit anchor missing: %r)' % a[:40])
            s = s.replace(a, b)
        open(p, 'w').write(s)
        c = subprocess.run(['cargo', 'check', '--offline', '-q'], cwd=d, capture_output=True, text=True, env=dict(os.environ, CARGO_TARGET_DIR='/var/tmp/benign-target'))
        if c.returncode != 0:
            print(prop, rel, 'edit does not compile, skipped', c.stderr[-300:]); continue
        env = dict(os.environ, VERIF_REPO=d, VERIF_NO_EVIDENCE='1', VERIF_ONLY='verus')
        r = subprocess.run(['python3', '/verif/tools/run_check.py', prop], env=env, capture_output=True, text=True)
        lines = [l for l in (r.stdout + r.stderr).splitlines() if l.startswith(('OK', 'VIOLATION', 'UNDECIDED'))]
        print(prop, [a for a, b in subs][0][:30], '-> exit', r.returncode, lines[0][:160] if lines else '')
        if r.returncode == 1:
            bad += 1
    finally:
        shutil.rmtree(d, ignore_errors=True)
print('FALSE ALARMS:', bad)
