"""Development aid (never used by MANIFEST commands): assemble ONE unit from a tree and run Verus on it.
usage: dev_try.py <unit> [repo-root] [-v]   (RL=<rlimit> in the environment)"""
import sys
sys.path.insert(0,'/verif/tools'); sys.path.insert(0,'/verif/verus/units')
import vunit, importlib
u=importlib.import_module(sys.argv[1])
root = sys.argv[2] if len(sys.argv)>2 else '/repo'
a=vunit.assemble(u,root)
import os
r=vunit.run_verus(a,'/var/tmp/rpm-verif/dev', rlimit=(int(os.environ['RL']) if os.environ.get('RL') else None))
print(r['rc'], r.get('verified'), r.get('n_errors'), r['wall_s'])
for k,v in r['functions'].items():
    if not v['success'] or '-v' in sys.argv: print(k,v['success'], v['time_us'])
for e in r['errors']: print('ERR', e['function'], '|', e['message'], '|', e.get('snippet'), '|', e.get('repo_item'), e.get('unit_line'), [l['text'][:80] for l in e.get('labels',[])])
for e in r['hard_errors']: print('HARD', e)
