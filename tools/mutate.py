#!/usr/bin/env python3
"""Mutation smoke test: apply a textual mutation to a scratch copy of /repo and run a check
against it (VERIF_REPO).  usage: mutate.py PROP FILE 'old' 'new' [--tier T]
Prints the check's verdict; expected: exit 1 with a VIOLATION line."""
import os, shutil, subprocess, sys, tempfile
revert = None
patchf = None
if sys.argv[2] == '--revert':
    prop, revert = sys.argv[1], sys.argv[3]
    extra = sys.argv[4:]
elif sys.argv[2] == '--patch':
    prop, patchf = sys.argv[1], sys.argv[3]
    extra = sys.argv[4:]
else:
    prop, rel, old, new = sys.argv[1:5]
    extra = sys.argv[5:]
d = tempfile.mkdtemp(prefix='mut-', dir='/var/tmp')
try:
    subprocess.run(['rsync', '-a', '--exclude', '/target', '--exclude', '/.git', '/repo/', d + '/'], check=True)
    if revert:
        diff = subprocess.run(['git', '-C', '/repo', 'show', revert, '--format='], capture_output=True, text=True).stdout
        r = subprocess.run(['patch', '-R', '-p1', '-d', d], input=diff, capture_output=True, text=True)
        if r.returncode != 0:
            print('REVERT FAILED', r.stdout[-500:]); sys.exit(3)
    elif patchf:
        r = subprocess.run(['patch', '-p1', '-d', d], input=open(patchf).read(), capture_output=True, text=True)
        if r.returncode != 0:
            print('PATCH FAILED', r.stdout[-500:]); sys.exit(3)
    else:
        p = os.path.join(d, rel)
        s = open(p).read()
        if s.count(old) != 1:
            print('MUTATION ANCHOR occurs %d times' % s.count(old)); sys.exit(3)
        open(p, 'w').write(s.replace(old, new))
    env = dict(os.environ, VERIF_REPO=d, VERIF_NO_EVIDENCE='1')
    r = subprocess.run(['python3', '/verif/tools/run_check.py', prop] + extra, env=env, capture_output=True, text=True)
    lines = [l for l in (r.stdout + r.stderr).splitlines() if l.startswith(('VIOLATION', 'OK', 'UNDECIDED', 'KNOWN')) or 'failed ' in l or l.strip().startswith('- ')]
    print('exit', r.returncode)
    print('\n'.join(lines[:14]))
finally:
    shutil.rmtree(d, ignore_errors=True)
