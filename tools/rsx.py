#!/usr/bin/env python3
"""rsx - a small Rust item locator used to extract the *verbatim* text of functions, impl
blocks, structs, enums and consts out of /repo's current working tree.

It is not a parser.  It masks comments, string literals and char literals (so that braces and
keywords inside them are invisible), and then locates items by keyword + name at the right
nesting depth and matches braces.  Anything it cannot locate unambiguously raises LostAnchor,
which the runner reports as exit 2 (undecided), never as a violation.
"""
import re


class LostAnchor(Exception):
    pass


def mask(text):
    """Return a string of the same length as `text` in which the *contents* of comments,
    string literals (normal, raw, byte) and char literals are replaced by spaces.
    Newlines are preserved so that line numbers stay valid."""
    out = list(text)
    n = len(text)
    i = 0

    def blank(a, b):
        for k in range(a, b):
            if out[k] != '\n':
                out[k] = ' '

    while i < n:
        c = text[i]
        if c == '/' and i + 1 < n and text[i + 1] == '/':
            j = text.find('\n', i)
            if j < 0:
                j = n
            blank(i, j)
            i = j
        elif c == '/' and i + 1 < n and text[i + 1] == '*':
            depth = 1
            j = i + 2
            while j < n and depth > 0:
                if text.startswith('/*', j):
                    depth += 1
                    j += 2
                elif text.startswith('*/', j):
                    depth -= 1
                    j += 2
                else:
                    j += 1
            blank(i, j)
            i = j
        elif c == '"' or (c in 'rb' and re.match(r'(?:b?r#*"|b")', text[i:i + 12]) and
                          (i == 0 or not (text[i - 1].isalnum() or text[i - 1] == '_'))):
            m = re.match(r'b?r(#*)"', text[i:i + 12])
            if m:
                hashes = m.group(1)
                start = i + m.end()
                end = text.find('"' + hashes, start)
                if end < 0:
                    raise LostAnchor('unterminated raw string')
                blank(start, end)
                i = end + 1 + len(hashes)
            else:
                j = i + (2 if c == 'b' else 1)
                start = j
                while j < n and text[j] != '"':
                    if text[j] == '\\':
                        j += 1
                    j += 1
                blank(start, j)
                i = j + 1
        elif c == "'":
            # char literal or lifetime
            m = re.match(r"'(\\(?:x[0-9a-fA-F]{2}|u\{[0-9a-fA-F_]+\}|.)|[^\\'])'", text[i:i + 14])
            if m:
                blank(i + 1, i + m.end() - 1)
                i += m.end()
            else:
                i += 1
        else:
            i += 1
    return ''.join(out)


def match_brace(masked, open_idx, open_ch='{', close_ch='}'):
    assert masked[open_idx] == open_ch, (masked[open_idx - 20:open_idx + 20])
    depth = 0
    for j in range(open_idx, len(masked)):
        ch = masked[j]
        if ch == open_ch:
            depth += 1
        elif ch == close_ch:
            depth -= 1
            if depth == 0:
                return j
    raise LostAnchor('unbalanced %s at %d' % (open_ch, open_idx))


def next_open_brace(masked, start, end=None):
    """First `{` after `start` that is not nested inside (), [] or <> generics of a signature.
    Angle brackets are not tracked (they never contain braces in the code we extract)."""
    depth = 0
    end = len(masked) if end is None else end
    for j in range(start, end):
        ch = masked[j]
        if ch in '([':
            depth += 1
        elif ch in ')]':
            depth -= 1
        elif ch == '{' and depth == 0:
            return j
        elif ch == ';' and depth == 0:
            return -1
    return -1


def _semi_at_depth0(masked, start):
    depth = 0
    for j in range(start, len(masked)):
        ch = masked[j]
        if ch in '([{':
            depth += 1
        elif ch in ')]}':
            depth -= 1
        elif ch == ';' and depth == 0:
            return j
    return -1


def norm_ws(s):
    return re.sub(r'\s+', ' ', s).strip()


class Source:
    def __init__(self, path, text=None):
        self.path = path
        if text is None:
            with open(path, encoding='utf-8') as f:
                text = f.read()
        self.text = text
        self.masked = mask(text)

    # ---- depth helper -------------------------------------------------------------------
    def depth_at(self, idx, lo=0):
        d = 0
        m = self.masked
        for j in range(lo, idx):
            if m[j] == '{':
                d += 1
            elif m[j] == '}':
                d -= 1
        return d

    def line_of(self, idx):
        return self.text.count('\n', 0, idx) + 1

    # ---- impl blocks --------------------------------------------------------------------
    def impls(self):
        """Yield (header_norm, hdr_start, body_open, body_close) for every impl block at
        top level (depth 0) or inside a module."""
        m = self.masked
        for mm in re.finditer(r'(?m)^[ \t]*(?:unsafe\s+)?impl\b', m):
            start = mm.start() + (len(mm.group(0)) - len(mm.group(0).lstrip()))
            ob = next_open_brace(m, mm.end())
            if ob < 0:
                continue
            cb = match_brace(m, ob)
            yield norm_ws(self.text[start:ob]), start, ob, cb

    def find_impl(self, header):
        want = norm_ws(header)
        hits = [(s, ob, cb) for (h, s, ob, cb) in self.impls() if h == want]
        if not hits:
            raise LostAnchor('impl block `%s` not found in %s' % (want, self.path))
        return hits

    # ---- functions ----------------------------------------------------------------------
    def find_fn(self, name, within=None):
        """Locate `fn name` whose enclosing brace depth (relative to `within`) is the direct
        child level.  Returns dict(start, fn_kw, sig_end(open brace), close)."""
        m = self.masked
        lo, hi = (0, len(m)) if within is None else within
        base = 0 if within is None else 1
        hits = []
        for mm in re.finditer(r'\bfn\s+%s\b' % re.escape(name), m[lo:hi]):
            idx = lo + mm.start()
            if self.depth_at(idx, lo) != base:
                continue
            # walk back over qualifiers on the same item
            head = m[max(lo, idx - 80):idx]
            q = re.search(r'((?:pub(?:\s*\([^)]*\))?\s+)?(?:(?:const|async|unsafe|default)\s+)*)$', head)
            start = idx - (len(q.group(1)) if q else 0)
            ob = next_open_brace(m, lo + mm.end(), hi)
            if ob < 0:
                continue  # declaration without body
            cb = match_brace(m, ob)
            hits.append(dict(start=start, fn_kw=idx, open=ob, close=cb))
        if len(hits) != 1:
            raise LostAnchor('fn `%s`: %d candidates in %s' % (name, len(hits), self.path))
        return hits[0]

    def extract_fn(self, name, impl=None):
        """Return Item for fn `name`, optionally inside the impl block with header `impl`."""
        if impl is None:
            h = self.find_fn(name)
        else:
            cands = []
            for (s, ob, cb) in self.find_impl(impl):
                try:
                    cands.append(self.find_fn(name, (ob, cb + 1)))
                except LostAnchor:
                    pass
            if len(cands) != 1:
                raise LostAnchor('fn `%s` in `%s`: %d candidates in %s' % (name, impl, len(cands), self.path))
            h = cands[0]
        return Item(self, h['start'], h['close'] + 1, sig_open=h['open'], kind='fn',
                    name=(impl + '::' if impl else '') + name)

    # ---- struct / enum / const / type ------------------------------------------------------
    def extract_decl(self, kind, name):
        m = self.masked
        if kind in ('struct', 'enum', 'trait'):
            pat = r'(?m)^[ \t]*((?:pub(?:\s*\([^)]*\))?\s+)?%s\s+%s\b)' % (kind, re.escape(name))
        elif kind in ('const', 'static'):
            pat = r'(?m)^[ \t]*((?:pub(?:\s*\([^)]*\))?\s+)?%s\s+%s\s*:)' % (kind, re.escape(name))
        else:
            raise ValueError(kind)
        hits = [mm for mm in re.finditer(pat, m) if self.depth_at(mm.start(1)) == 0]
        if len(hits) != 1:
            raise LostAnchor('%s `%s`: %d candidates in %s' % (kind, name, len(hits), self.path))
        mm = hits[0]
        start = mm.start(1)
        if kind in ('const', 'static'):
            end = _semi_at_depth0(m, mm.end())
            if end < 0:
                raise LostAnchor('const `%s` unterminated' % name)
            return Item(self, start, end + 1, kind=kind, name=name)
        ob = next_open_brace(m, mm.end())
        semi = _semi_at_depth0(m, mm.end())
        if ob < 0 or (0 <= semi < ob):
            # tuple / unit struct
            return Item(self, start, semi + 1, kind=kind, name=name)
        cb = match_brace(m, ob)
        return Item(self, start, cb + 1, sig_open=ob, kind=kind, name=name)


LOOP_RE = re.compile(r'\b(for|while|loop)\b')


class Item:
    """A verbatim slice [start, end) of a Source, with edit operations that are all
    checked (expected match counts) and recorded."""

    def __init__(self, src, start, end, sig_open=None, kind='fn', name=''):
        self.src = src
        self.start = start
        self.end = end
        self.kind = kind
        self.name = name
        self.sig_open = sig_open  # absolute index of the `{` opening the body
        self.orig = src.text[start:end]
        self.first_line = src.line_of(start)
        self.last_line = src.line_of(end - 1)

    def loops(self):
        """Absolute (kw_index, open_brace_index) of each loop in the body, in source order.
        `for` inside `impl .. for ..`/HRTB never appears inside fn bodies we extract."""
        m = self.src.masked
        res = []
        if self.sig_open is None and self.kind != 'block':
            return res
        lo = self.start if self.sig_open is None else self.sig_open
        for mm in LOOP_RE.finditer(m, lo, self.end):
            kw = mm.group(1)
            ob = next_open_brace(m, mm.end(), self.end)
            if ob < 0:
                continue
            if kw == 'for':
                seg = m[mm.end():ob]
                if not re.search(r'\bin\b', seg):
                    continue
            res.append((mm.start(), ob))
        return res
