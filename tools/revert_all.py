"""Development aid: revert each fix commit of known_findings.json on a scratch copy and run the property check (the defects-return test of DESIGN section 6)."""
import json,re,subprocess,os
d=json.load(open('/verif/known_findings.json'))
seen=set()
kani_needed={'c54702a','c9f4460','9674c65','6ac32fd','922ae17','ce0fcfc'}
for f in d['fixed']:
    m=re.match(r'fixed: property=(C\d\d) (\w+) ', f)
    prop,c=m.group(1),m.group(2)
    if (prop,c) in seen: continue
    seen.add((prop,c))
    env=dict(os.environ)
    if c not in kani_needed: env['VERIF_ONLY']='verus'
    r=subprocess.run(['python3','/verif/tools/mutate.py',prop,'--revert',c],capture_output=True,text=True,env=env,timeout=7200)
    lines=r.stdout.strip().splitlines()
    print(prop,c,' | '.join(l[:110] for l in lines[:2]),flush=True)
