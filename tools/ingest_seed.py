#!/usr/bin/env python3
"""Confirm and store a seeded change produced by a sub-agent, then run the property's check
against it.  usage: ingest_seed.py <worktree> <seed-id> <PROP> [extra check PROPs...]
Confirms (in the agent's worktree): demo fails with the change, passes without, existing suite
passes with the change.  Stores /verif/seeded/<seed-id>/{patch.diff,demo.rs,meta.json}."""
import json, os, re, shutil, subprocess, sys
wt, sid, prop = sys.argv[1:4]
others = sys.argv[4:]
def sh(cmd, cwd=wt, timeout=3000):
    return subprocess.run(cmd, shell=True, cwd=cwd, capture_output=True, text=True, timeout=timeout)
def demo():
    r = sh('cargo test --offline --test seeded_demo 2>&1 | tail -15')
    return ('test result: ok' in r.stdout and 'FAILED' not in r.stdout), r.stdout[-600:]
diff = sh('git diff -- src').stdout
assert diff.strip(), 'no source change in worktree'
ok_with, out_with = demo()
open('/tmp/ingest_seed.patch', 'w').write(diff)
sh('git checkout -- src')
ok_without, out_without = demo()
sh('git apply /tmp/ingest_seed.patch')
assert sh('git diff -- src').stdout == diff
suite = sh('cargo test --workspace --no-fail-fast --offline 2>&1 | grep -E "^test result|^test .* FAILED|Running"')
lines = suite.stdout.splitlines()
# all failures must belong to the seeded demo
failed_tests = [l for l in lines if 'FAILED' in l and l.startswith('test ')]
results = [l for l in lines if l.startswith('test result')]
passed = sum(int(re.search(r'(\d+) passed', l).group(1)) for l in results)
confirm = dict(demo_fails_with_change=not ok_with, demo_passes_without_change=ok_without,
               suite_result_lines=results, failed_tests=failed_tests)
dst = os.path.join('/verif/seeded', sid)
os.makedirs(dst, exist_ok=True)
open(os.path.join(dst, 'patch.diff'), 'w').write(diff)
shutil.copy(os.path.join(wt, 'tests', 'seeded_demo.rs'), os.path.join(dst, 'demo.rs'))
meta = {}
mp = os.path.join(wt, 'SEEDED', 'meta.json')
if os.path.exists(mp):
    try: meta = json.load(open(mp))
    except Exception as e: meta = {'agent_meta_unreadable': str(e)}
meta['property'] = prop
meta['confirmed_by_framework_author'] = confirm
# run the checks against the change
verdicts = {}
for p in [prop] + others:
    r = subprocess.run(['python3', '/verif/tools/mutate.py', p, '--patch', os.path.join(dst, 'patch.diff')],
                       capture_output=True, text=True, timeout=7200)
    verdicts[p] = r.stdout.strip().splitlines()[:12]
meta['check_verdicts'] = verdicts
meta['what_i_ran'] = ['cargo test --offline --test seeded_demo (with change / with src stashed)',
                      'cargo test --workspace --no-fail-fast --offline (with change)',
                      'python3 tools/mutate.py <PROP> --patch seeded/%s/patch.diff' % sid]
json.dump(meta, open(os.path.join(dst, 'meta.json'), 'w'), indent=1)
print(json.dumps(confirm, indent=1))
for p, v in verdicts.items():
    print('==', p); print('\n'.join(v))
