#!/usr/bin/env python3
"""vunit - assemble a single-file Verus unit from verbatim extracts of /repo plus contract
clauses, run Verus on it and turn the result into named obligations.

A unit is a python module in /verif/verus/units/ exposing

    NAME      : str
    PARTS     : list of Raw(...) / Prelude(...) / Fn(...) / Decl(...)
    CANARIES  : optional list of function names that MUST FAIL (vacuity guards)

Every edit applied to extracted text is declared in the unit (literal or regex substitution
with an expected match count, contract clauses keyed by loop ordinal, proof hints keyed by an
anchor string).  A substitution whose count does not match, an anchor that is missing, an
item that cannot be located: LostAnchor -> exit 2 (undecided).
"""
import hashlib
import json
import os
import re
import subprocess
import time

from rsx import Source, LostAnchor, norm_ws, mask

VERIF = os.path.dirname(os.path.dirname(os.path.abspath(__file__)))

_SRC_CACHE = {}


def source(root, rel):
    key = os.path.join(root, rel)
    if key not in _SRC_CACHE:
        _SRC_CACHE[key] = Source(key)
    return _SRC_CACHE[key]


# Rules applied to every extract (DESIGN 2.2 R1/R13); each is counted in the evidence.
GLOBAL_RULES = [
    ('R13-visibility', re.compile(r'\bpub\s*\(\s*(?:crate|super)\s*\)'), 'pub'),
    ('R1-doc-comment', re.compile(r'(?m)^[ \t]*///.*\n'), ''),
    ('R1-attr', re.compile(r'(?m)^[ \t]*#\[(?:inline|derive|allow|non_exhaustive|must_use)[^\]]*\]\s*\n'), ''),
]


# names of functions the unit being assembled defines itself (extracted or hand-written); set by assemble()
_UNIT_KNOWN = None


def _split_args(masked, text):
    """split `text` (an argument list without the outer parentheses) at its top-level commas"""
    out, depth, last = [], 0, 0
    for j, ch in enumerate(masked):
        if ch in '([{':
            depth += 1
        elif ch in ')]}':
            depth -= 1
        elif ch == ',' and depth == 0:
            out.append(text[last:j])
            last = j + 1
    if text[last:].strip():
        out.append(text[last:])
    return [a.strip() for a in out]


def inline_helpers(text, src, known, own, rules, applied):
    """R45: a call of a free helper function of the same source file that has no contract in the unit is
    replaced by a block expression binding the helper's parameters to the arguments, followed by the
    helper's body (`({ let p: T = arg; ..; BODY })`), and the unit's rewrite rules are applied to that
    body too.  Modular verification knows nothing about an uncontracted callee, so the alternative would
    be to reject the caller (undecided) whenever a refactoring moves a few lines into a new private
    function.  Refused (the call is left as it is, and Verus then rejects the unit: undecided) when the
    helper is generic, takes `self` or a pattern, is recursive, or its body contains `return`, `?` or a loop
    (a loop has no invariant to offer: the caller could fail for lack of a proof, not for a defect)."""
    from rsx import match_brace, mask as _mask
    cands = set(re.findall(r'(?m)^(?:pub(?:\s*\([^)]*\))?\s+)?fn\s+([A-Za-z_]\w*)\s*\(', src.masked))
    cands -= set(known) | {own}
    if not cands:
        return text
    for _round in range(16):
        m = _mask(text)
        hit = None
        for mm in re.finditer(r'(?<![\w.:])([a-z_]\w*)\(', m):
            if mm.group(1) in cands and not re.search(r'\bfn\s+$', m[:mm.start()]):
                hit = mm
                break
        if hit is None:
            return text
        name = hit.group(1)
        op = hit.end() - 1
        cp = match_brace(m, op, '(', ')')
        args = _split_args(m[op + 1:cp], text[op + 1:cp])
        try:
            h = src.find_fn(name)
        except LostAnchor:
            return text
        sig = src.masked[h['fn_kw']:h['open']]
        sm = re.match(r'fn\s+\w+\s*\((.*)\)\s*(?:->\s*[^{]+)?$', sig.strip(), re.S)
        if not sm or '<' in sig.split('(')[0] or re.search(r'\bself\b|\bimpl\b', sig):
            return text
        params = _split_args(sm.group(1), sm.group(1))
        pp = [re.match(r'(?:mut\s+)?([a-z_]\w*)\s*:\s*(.+)$', q, re.S) for q in params]
        body_m = src.masked[h['open'] + 1:h['close']]
        if (not all(pp) or len(pp) != len(args) or re.search(r'\breturn\b|\?|\b(?:for|while|loop)\b', body_m)
                or re.search(r'\b%s\s*\(' % re.escape(name), body_m)):
            return text
        body = src.text[h['open'] + 1:h['close']]
        for rname, rx, rep in GLOBAL_RULES:
            body = rx.sub(rep, body)
        for sub in rules:
            pat, rep = sub[0], sub[1]
            body = body.replace(pat, rep) if isinstance(pat, str) else pat.sub(rep, body)
        lets = ' '.join('let %s: %s = %s;' % (q.group(1), norm_ws(q.group(2)), a) for q, a in zip(pp, args))
        text = text[:hit.start(1)] + '({ ' + lets + body.rstrip() + ' })' + text[cp + 1:]
        applied.append(('R45-inline the uncontracted helper `%s` (%d lines) at its call site' % (name, body.count('\n') + 1), 1))
    return text


class Raw:
    def __init__(self, text, label='raw'):
        self.text = text
        self.label = label

    def render(self, root):
        return self.text, None


class Prelude(Raw):
    def __init__(self, relpath, until=None):
        """`until`: take only the text before this marker (e.g. the spec vocabulary of a file without the
        assumed contracts that follow it)."""
        with open(os.path.join(VERIF, 'verus', 'prelude', relpath)) as f:
            text = f.read()
        if until is not None:
            text = text[:text.index(until)]
        super().__init__(text, 'prelude:' + relpath + ('' if until is None else ' (spec part)'))
        self.relpath = relpath


class _Extract:
    def __init__(self, file, subs=(), spec=None, loops=None, before=(), after=(), label=None,
                 note=None, replace_loops=None, index_loops=None, optional=False, prologue=None):
        self.file = file
        self.subs = list(subs)
        self.spec = spec
        self.loops = dict(loops or {})
        self.before = list(before)
        self.after = list(after)
        self.label = label
        self.note = note
        self.applied = []
        self.item = None
        self.prologue = prologue   # proof text placed at the very start of the body (no anchor needed)
        self.optional = optional   # the function need not exist (e.g. an override of a std default)
        self.replace_loops = dict(replace_loops or {})
        # R8: desugar `for X in &mut V {BODY}` (loop ordinal k) into the index loop
        # `let mut I: usize = 0; while I < V.len() <clauses> { let X = &mut V[I]; BODY I += 1; }`
        # value: (index_name, clauses_text).  Refused if BODY contains `continue`.
        self.index_loops = dict(index_loops or {})

    def locate(self, src):
        raise NotImplementedError

    def _r8_continue(self, item, k, lp, ob, cb, iname, cuts):
        """R8 and `continue`: in the index loop a `continue` has to advance the index first, so each
        `continue;` of the loop body becomes `{ I += 1; continue; }`.  Refused when the body has a loop of
        its own (the `continue` might belong to it)."""
        body = item.src.masked[ob:cb]
        if not re.search(r'\bcontinue\b', body):
            return
        if any(ob < kw2 < cb for (kw2, _ob2) in lp):
            raise LostAnchor('%s: loop #%d contains `continue` and a nested loop; R8 desugaring refused' % (item.name, k))
        n = 0
        for mc in re.finditer(r'\bcontinue\s*;', body):
            a = ob + mc.start() - item.start
            cuts.append((a, a + len(mc.group(0)), '{ %s += 1; continue; }' % iname))
            n += 1
        if n != len(re.findall(r'\bcontinue\b', body)):
            raise LostAnchor('%s: loop #%d has a `continue` that is not a statement; R8 desugaring refused' % (item.name, k))
        self.applied.append(('R8-continue: `continue;` -> `{ %s += 1; continue; }` in the index loop' % iname, n))

    def render(self, root):
        src = source(root, self.file)
        try:
            item = self.locate(src)
        except LostAnchor:
            if self.optional:
                return '', None
            raise
        self.item = item
        text = item.orig
        inserts = []  # (rel_offset, marker)
        if self.spec is not None:
            if item.sig_open is None:
                raise LostAnchor('%s: no body to attach a contract to' % item.name)
            inserts.append((item.sig_open - item.start, '/*@SPEC@*/'))
        if self.loops:
            lp = item.loops()
            for k in self.loops:
                if k >= len(lp):
                    raise LostAnchor('%s: loop #%d not found (%d loops)' % (item.name, k, len(lp)))
                inserts.append((lp[k][1] - item.start, '/*@LOOP%d@*/' % k))
            self.n_loops = len(lp)
        # R8-style replacement of a whole loop statement (by loop ordinal) with declared text
        cuts = []
        if self.replace_loops:
            from rsx import match_brace
            lp = item.loops()
            for k, repl in self.replace_loops.items():
                if k >= len(lp):
                    raise LostAnchor('%s: loop #%d to replace not found (%d loops)' % (item.name, k, len(lp)))
                kw, ob = lp[k]
                cb = match_brace(item.src.masked, ob)
                cuts.append((kw - item.start, cb + 1 - item.start, repl))
                self.applied.append(('R8-replace-loop #%d (%d lines) -> `%s`' % (
                    k, item.src.text.count('\n', kw, cb) + 1, repl.strip()), 1))
        if self.index_loops:
            from rsx import match_brace
            lp = item.loops()
            for k, tup in self.index_loops.items():
                iname, clauses = tup[0], tup[1]
                tail_hint = tup[2] if len(tup) > 2 else ''
                if k >= len(lp):
                    raise LostAnchor('%s: loop #%d to desugar not found (%d loops)' % (item.name, k, len(lp)))
                kw, ob = lp[k]
                cb = match_brace(item.src.masked, ob)
                head = item.src.masked[kw:ob]
                over = tup[3] if len(tup) > 3 else None
                if over is not None:
                    # R8 over an iterator expression: `for X in <EXPR>` where <EXPR> (whitespace-normalised) must be the
                    # declared one; the elements are those of the Vec `<vec_fn>(..)` declared by the unit (its contract
                    # states which elements, in which order, the iterator yields)
                    want_expr, vec_decl, vec_name = over[:3]
                    if isinstance(want_expr, dict):
                        # several iterator expressions are accepted, each with its own Vec helper (whose contract says
                        # which items THAT iterator yields): the one the code uses is looked up
                        mh0 = re.match(r'for\s+(?:[A-Za-z_][A-Za-z0-9_]*|\([^)]*\))\s+in\s+(.*?)\s*$', norm_ws(item.src.text[kw:ob]), re.S)
                        got0 = mh0.group(1).strip() if mh0 else None
                        alts = {norm_ws(k_): v_ for k_, v_ in want_expr.items()}
                        if got0 not in alts:
                            raise LostAnchor('%s: loop #%d iterates `%s`, none of the declared expressions %s' % (item.name, k, got0, sorted(alts)))
                        want_expr, vec_decl = got0, alts[got0]
                    elem = (over[3] if len(over) > 3 else '{v}[{i}]').format(v=vec_name, i=iname)   # how element i is obtained
                    mh = re.match(r'for\s+([A-Za-z_][A-Za-z0-9_]*|\([^)]*\))\s+in\s+(.*?)\s*$', head, re.S)   # identifier or tuple pattern
                    got = norm_ws(item.src.text[kw:ob]).split(' in ', 1)[1].strip() if mh else None
                    if not mh or got != norm_ws(want_expr):
                        raise LostAnchor('%s: loop #%d does not iterate `%s`: `%s`' % (item.name, k, want_expr, head.strip()))
                    self._r8_continue(item, k, lp, ob, cb, iname, cuts)
                    x = mh.group(1)
                    cuts.append((kw - item.start, ob + 1 - item.start,
                                 '%s\n        let mut %s: usize = 0;\n        while %s < %s.len()\n%s\n        {\n            let %s = %s;'
                                 % (vec_decl, iname, iname, vec_name, clauses.strip('\n'), x, elem)))
                    self.applied.append(('R8-desugar `for %s in %s` into an index loop over `%s`' % (x, want_expr, vec_decl), 1))
                else:
                    mh = re.match(r'for\s+([A-Za-z_][A-Za-z0-9_]*)\s+in\s+&(mut\s+)?([A-Za-z_][A-Za-z0-9_.]*)\s*$', head)
                    if not mh:
                        # `for X in V.iter()` visits the same elements as `for X in &V`
                        mi = re.match(r'for\s+([A-Za-z_][A-Za-z0-9_]*)\s+in\s+([A-Za-z_][A-Za-z0-9_.]*)\.iter\(\)\s*$', head)
                        if not mi:
                            raise LostAnchor('%s: loop #%d is not of the form `for X in &[mut] V` / `for X in V.iter()`: `%s`' % (item.name, k, head.strip()))
                        x, mut, v = mi.group(1), '', mi.group(2)
                    else:
                        x, mut, v = mh.group(1), ('mut ' if mh.group(2) else ''), mh.group(3)
                    self._r8_continue(item, k, lp, ob, cb, iname, cuts)
                    cuts.append((kw - item.start, ob + 1 - item.start,
                                 'let mut %s: usize = 0;\n        while %s < %s.len()\n%s\n        {\n            let %s = &%s%s[%s];'
                                 % (iname, iname, v, clauses.strip('\n'), x, mut, v, iname)))
                    self.applied.append(('R8-desugar `for %s in &%s%s` into an index loop over %s' % (x, mut, v, iname), 1))
                cuts.append((cb - item.start, cb - item.start, '%s    %s += 1;\n        ' % (tail_hint, iname)))
        edits = [(off, off, mk) for off, mk in inserts] + cuts
        for a, b, mk in sorted(edits, key=lambda e: e[0], reverse=True):
            # inserts that fall inside a replaced loop are dropped with the loop
            if a == b and any(ca < a < cb for (ca, cb, _) in cuts if cb > ca):
                continue
            text = text[:a] + mk + text[b:]
        # anchored proof hints
        fills = {}
        for idx, tup in enumerate(self.before):
            anchor, hint = tup[0], tup[1]
            want = tup[2] if len(tup) > 2 else 1
            if text.count(anchor) != want:
                raise LostAnchor('%s: anchor `%s` occurs %d times' % (item.name, anchor, text.count(anchor)))
            mk = '/*@B%d@*/' % idx
            text = text.replace(anchor, mk + anchor)
            fills[mk] = hint
        for idx, tup in enumerate(self.after):
            anchor, hint = tup[0], tup[1]
            want = tup[2] if len(tup) > 2 else 1
            if text.count(anchor) != want:
                raise LostAnchor('%s: anchor `%s` occurs %d times' % (item.name, anchor, text.count(anchor)))
            mk = '/*@A%d@*/' % idx
            text = text.replace(anchor, anchor + mk)
            fills[mk] = hint
        # global rules
        for name, rx, rep in GLOBAL_RULES:
            text, n = rx.subn(rep, text)
            if n:
                self.applied.append((name, n))
        # declared substitutions
        for sub in self.subs:
            pat, rep, cnt = sub[0], sub[1], sub[2]
            rule = sub[3] if len(sub) > 3 else 'sub'
            if isinstance(pat, str):
                n = text.count(pat)
                text = text.replace(pat, rep)
                shown = pat
            else:
                text, n = pat.subn(rep, text)
                shown = pat.pattern
            if cnt is not None and n != cnt:
                raise LostAnchor('%s: substitution `%s` matched %d times, declared %d'
                                 % (item.name, shown, n, cnt))
            self.applied.append(('%s: `%s` -> `%s`' % (rule, shown, rep), n))
        if _UNIT_KNOWN is not None and isinstance(self, (Fn, Block)):
            own = item.name.split('::')[-1]
            text = inline_helpers(text, src, _UNIT_KNOWN, own, self.subs, self.applied)
        if self.prologue is not None:
            if not re.search(r'/\*@SPEC@\*/\{', text):
                raise LostAnchor('%s: no body start to attach the prologue to' % item.name)
            text = re.sub(r'(/\*@SPEC@\*/\{)', lambda m: m.group(1) + '\n        ' + self.prologue.strip('\n') + '\n', text, count=1)
        if self.spec is not None:
            text = text.replace('/*@SPEC@*/', '\n' + self.spec.strip('\n') + '\n')
        for k, inv in self.loops.items():
            text = text.replace('/*@LOOP%d@*/' % k, '\n' + inv.strip('\n') + '\n')
        for mk, hint in fills.items():
            text = text.replace(mk, hint)
        return text + '\n', item


class Fn(_Extract):
    def __init__(self, file, name, impl=None, **kw):
        super().__init__(file, **kw)
        self.name = name
        self.impl = impl

    def locate(self, src):
        return src.extract_fn(self.name, self.impl)


class Block(_Extract):
    """A verbatim statement range of a function body, [start_anchor .. end_anchor] inclusive, wrapped
    into a synthetic function `header { <block> tail }` whose parameters are the block's free
    variables.  A block contract {P} block {Q}: the enclosing function is NOT verified, so the
    block is proved for every entry state satisfying the stated precondition.  Both anchors must
    occur exactly once in the function body (else LostAnchor -> exit 2)."""

    def __init__(self, file, name, start, end, header, tail='', impl=None, exclusive=False, keep_start=False, keep_end=False, **kw):
        super().__init__(file, **kw)
        self.exclusive = exclusive   # the anchors delimit the block but are not part of it
        self.keep_start = keep_start  # with exclusive=True: the start anchor IS part of the block
        self.keep_end = keep_end      # with exclusive=True: the end anchor IS part of the block
        self.name = name
        self.impl = impl
        self.start_anchor = start
        self.end_anchor = end
        self.header = header
        self.tail = tail

    def locate(self, src):
        from rsx import Item
        fn = src.extract_fn(self.name, self.impl)
        body = src.text[fn.sig_open:fn.end]
        if body.count(self.start_anchor) != 1:
            raise LostAnchor('%s: block start `%s` occurs %d times' % (fn.name, self.start_anchor, body.count(self.start_anchor)))
        a = fn.sig_open + body.index(self.start_anchor)
        rest = src.text[a:fn.end]
        if rest.count(self.end_anchor) < 1:
            raise LostAnchor('%s: block end `%s` not found after the block start' % (fn.name, self.end_anchor))
        b = a + rest.index(self.end_anchor) + len(self.end_anchor)
        if self.exclusive:
            ls = a if self.keep_start else a + len(self.start_anchor)
            if self.keep_start:
                l0 = src.text.rfind('\n', 0, a) + 1
                if not src.text[l0:a].strip():
                    ls = l0
            b = a + rest.index(self.end_anchor, len(self.start_anchor))
            if self.keep_end:
                b += len(self.end_anchor)
            if b < ls:
                raise LostAnchor('%s: block delimiters overlap' % fn.name)
        else:
            # start at the beginning of the line holding the start anchor
            ls = src.text.rfind('\n', 0, a) + 1
            if src.text[ls:a].strip():
                ls = a
        it = Item(src, ls, b, sig_open=None, kind='block', name=fn.name + '{' + self.start_anchor[:24].strip() + '..}')
        return it

    def render(self, root):
        text, item = super().render(root)
        if item is None:
            return text, item
        return self.header.rstrip() + '\n{\n' + text + self.tail + '\n}\n', item


class Derived:
    """Text derived mechanically from a statement of a function: `regex` must match exactly once in the
    function's (comment-masked) text; `template.format(*groups)` is emitted.  R27."""

    def __init__(self, file, fn, impl, regex, template, rule):
        self.file, self.fn, self.impl, self.regex, self.template, self.rule = file, fn, impl, regex, template, rule
        self.applied = []
        self.item = None
        self.subs = []

    def render(self, root):
        src = source(root, self.file)
        fn = src.extract_fn(self.fn, self.impl)
        body = src.masked[fn.start:fn.end]
        ms = list(re.finditer(self.regex, body))
        if len(ms) != 1:
            raise LostAnchor('%s: derived text: `%s` matches %d times' % (fn.name, self.regex, len(ms)))
        self.item = fn
        self.applied = [('%s: `%s` -> `%s`' % (self.rule, ms[0].group(0), self.template.format(*ms[0].groups()).strip()), 1)]
        return self.template.format(*ms[0].groups()), fn


class Decl(_Extract):
    def __init__(self, file, kind, name, **kw):
        super().__init__(file, **kw)
        self.kind = kind
        self.name = name
        if kind == 'struct':
            # R13: private fields become `pub` (visibility only; Verus treats a struct with a
            # private field as opaque in `pub open spec fn`s)
            self.subs = [(re.compile(r'(?m)^([ \t]+)(?!pub\b)([a-z_][A-Za-z0-9_]*\s*:(?!:))'), r'\1pub \2', None,
                          'R13-visibility-field')] + self.subs

    def locate(self, src):
        return src.extract_decl(self.kind, self.name)


class Assembled:
    def __init__(self, name, text, segments):
        self.name = name
        self.text = text
        self.segments = segments  # list of (byte_start, byte_end, part, item)

    def locate(self, byte_off):
        for (a, b, part, item) in self.segments:
            if a <= byte_off < b:
                return part, item
        return None, None


CONST_USE = re.compile(r'(?<![:\w.])([A-Z][A-Z0-9_]{2,})\b(?!\s*(?:::|\(|!|\{))')


def _auto_consts(root, parts_rendered):
    """R25: a file-level `const` that an extracted function or block mentions and that the unit does
    not declare is pulled in verbatim (same file first, then src/constants.rs).  On the unchanged
    tree every unit declares what it uses, so this only matters for code that starts to use a new
    constant: the unit then still reaches the verifier instead of being rejected (undecided)."""
    full = ''.join(t for (t, _, _) in parts_rendered)
    declared = set(re.findall(r'\b(?:const|static)\s+([A-Z][A-Z0-9_]*)\s*:', full))
    extra = {}   # index of part -> text to put in front
    for k, (text, part, item) in enumerate(parts_rendered):
        if item is None or not isinstance(part, (Fn, Block)):
            continue
        body = mask(text)   # the rendered text (after the rewrite rules), comments and literals blanked
        for name in sorted(set(CONST_USE.findall(body))):
            if name in declared:
                continue
            for f in (part.file, 'src/constants.rs'):
                try:
                    d = Decl(f, 'const', name)
                    t, it = d.render(root)
                except (LostAnchor, OSError):
                    continue
                extra.setdefault(k, []).append((t + '\n', d, it))
                declared.add(name)
                break
    return extra


def assemble(unit, root):
    global _UNIT_KNOWN
    known = set()
    for part in unit.PARTS:
        if isinstance(part, Fn):
            known.add(part.name)
        elif isinstance(part, Raw):
            try:
                known |= set(re.findall(r'\bfn\s+([A-Za-z_]\w*)', part.render(root)[0]))
            except (LostAnchor, OSError):
                pass
    _UNIT_KNOWN = known
    rendered = []
    try:
        for part in unit.PARTS:
            text, item = part.render(root)
            rendered.append((text, part, item))
    finally:
        _UNIT_KNOWN = None
    extra = _auto_consts(root, rendered)
    # a const may only be placed between items: in front of the first extract of the unit's verus! block
    chunks = []
    segs = []
    pos = 0

    def emit(text, part, item):
        nonlocal pos
        b = text.encode('utf-8')
        segs.append((pos, pos + len(b), part, item))
        pos += len(b)
        chunks.append(text)

    pending = [x for k in sorted(extra) for x in extra[k]]
    placed = False
    for (text, part, item) in rendered:
        if pending and not placed and isinstance(part, Decl):
            for (t, d, it) in pending:
                emit(t, d, it)
            placed = True
        emit(text, part, item)
    if pending and not placed:
        raise LostAnchor('auto-const: no declaration slot in unit %s' % unit.NAME)
    return Assembled(unit.NAME, ''.join(chunks), segs)


def scan_assumptions(text):
    """Mechanical scan for everything that is assumed rather than proved."""
    out = []
    for kw in ('external_body', 'assume_specification', 'admit(', 'assume(', 'external_fn_specification',
               'external_type_specification', 'uninterp', 'axiom', 'external]', 'external_trait_specification'):
        n = len(re.findall(re.escape(kw), text))
        if n:
            out.append('%s x%d' % (kw, n))
    return out


def run_verus(assembled, workdir, rlimit=None, seed=None, timeout=900, extra=()):
    os.makedirs(workdir, exist_ok=True)
    crate = re.sub(r'[^a-z0-9_]', '_', assembled.name.lower())
    path = os.path.join(workdir, crate + '.rs')
    with open(path, 'w') as f:
        f.write(assembled.text)
    cmd = ['verus', path, '--output-json', '--time', '--error-format=json', '--multiple-errors', '20',
           '--no-report-long-running', '--num-threads', '8']
    if rlimit:
        cmd += ['--rlimit', str(rlimit)]
    if seed:
        cmd += ['--smt-option', 'smt.random_seed=%d' % seed]
    cmd += list(extra)
    t0 = time.time()
    try:
        p = subprocess.run(cmd, cwd=workdir, capture_output=True, text=True, timeout=timeout)
        rc, out, err = p.returncode, p.stdout, p.stderr
    except subprocess.TimeoutExpired as e:
        rc, out, err = 124, (e.stdout or ''), (e.stderr or '')
        if isinstance(out, bytes):
            out = out.decode('utf-8', 'replace')
        if isinstance(err, bytes):
            err = err.decode('utf-8', 'replace')
    wall = time.time() - t0
    return parse_verus(assembled, crate, cmd, rc, out, err, wall, path)


def parse_verus(assembled, crate, cmd, rc, out, err, wall, path):
    res = dict(unit=assembled.name, cmd=' '.join(cmd), rc=rc, wall_s=round(wall, 2), functions={},
               errors=[], hard_errors=[], path=path, smt_ms=0, ok=False, raw_err=err[-20000:])
    try:
        j = json.loads(out)
    except Exception:
        j = None
    diags = []
    for line in err.splitlines():
        line = line.strip()
        if line.startswith('{') and '"$message_type"' in line:
            try:
                diags.append(json.loads(line))
            except Exception:
                pass
    if j is None:
        res['hard_errors'].append('verus produced no JSON result (rc=%s)' % rc)
        for d in diags:
            if d.get('level') == 'error':
                res['hard_errors'].append(d.get('rendered') or d.get('message'))
        if not diags:
            res['hard_errors'].append(err[-3000:])
        return res
    vr = j.get('verification-results', {})
    res['verified'] = vr.get('verified', 0)
    res['n_errors'] = vr.get('errors', 0)
    res['vir_error'] = vr.get('encountered-vir-error', False)
    tm = j.get('times-ms', {})
    smt = tm.get('smt', {})
    res['smt_ms'] = smt.get('total', 0)
    for mod in smt.get('smt-run-module-times', []):
        for fb in mod.get('function-breakdown', []):
            name = fb['function']
            if name.startswith(crate + '::'):
                name = name[len(crate) + 2:]
            prev = res['functions'].get(name)
            ok = bool(fb.get('success'))
            if prev is not None:
                ok = ok and prev['success']
                fb_t = prev['time_us'] + fb.get('time-micros', 0)
            else:
                fb_t = fb.get('time-micros', 0)
            res['functions'][name] = dict(success=ok, mode=fb.get('mode:', fb.get('mode')), time_us=fb_t,
                                          rlimit=fb.get('rlimit'))
    # diagnostics -> errors with owner function
    fn_spans = _function_spans(assembled.text)
    tb = assembled.text.encode('utf-8')
    for d in diags:
        if d.get('level') != 'error':
            continue
        msg = d.get('message', '')
        if msg.startswith('aborting due to'):
            continue
        spans = d.get('spans', [])
        prim = [s for s in spans if s.get('is_primary')] or spans
        entry = dict(message=msg, rendered=d.get('rendered', ''))
        if prim:
            s = prim[0]
            entry['unit_line'] = s['line_start']
            entry['snippet'] = norm_ws(tb[s['byte_start']:s['byte_end']].decode('utf-8', 'replace'))[:300]
            entry['function'] = _owner(fn_spans, s['byte_start'])
            part, item = assembled.locate(s['byte_start'])
            if item is not None:
                entry['repo_file'] = os.path.relpath(item.src.path)
                entry['repo_item'] = item.name
                entry['repo_lines'] = [item.first_line, item.last_line]
            # secondary labels (e.g. the failed ensures clause)
            labels = []
            for s2 in spans:
                if s2 is s:
                    continue
                labels.append(dict(label=s2.get('label'),
                                   text=norm_ws(tb[s2['byte_start']:s2['byte_end']].decode('utf-8', 'replace'))[:300],
                                   function=_owner(fn_spans, s2['byte_start'])))
            entry['labels'] = labels
            # an error inside a callee's `requires` is attributed to the caller: verus marks the
            # call site as a non-primary or primary span; choose the span inside an exec/proof fn body
        verification_msgs = ('postcondition not satisfied', 'precondition not satisfied', 'assertion failed',
                             'possible arithmetic underflow/overflow', 'invariant not satisfied',
                             'possible division by zero', 'decreases not satisfied', 'index in bounds',
                             'recommendation not met', 'unreachable', 'loop invariant', 'rlimit',
                             'Resource limit', 'possible bit shift', 'cannot show', 'failed', 'not satisfied',
                             'could not prove', 'might fail', 'while loop: not all errors', 'unable to prove')
        if any(v in msg for v in verification_msgs) and not res['vir_error']:
            res['errors'].append(entry)
        else:
            res['hard_errors'].append(entry.get('rendered') or msg)
    res['ok'] = (rc == 0 and vr.get('success', False))
    return res


_FN_RE = re.compile(r'\bfn\s+([A-Za-z_][A-Za-z0-9_]*)')
_IMPL_RE = re.compile(r'(?m)^[ \t]*impl\b(?:\s*<[^{]*?>)?\s*(?:[A-Za-z_][\w:]*(?:<[^{]*?>)?\s+for\s+)?([A-Za-z_][A-Za-z0-9_]*)')


def _function_spans(text):
    """(byte_start, qualified name) of each `fn` keyword in the unit, for attributing
    diagnostics.  Functions inside `impl X {..}` / `impl T for X {..}` are named `X::f`."""
    from rsx import mask, next_open_brace, match_brace
    m = mask(text)
    if any(ord(c) > 127 for c in text):
        enc_prefix = [0]
        acc = 0
        for ch in text:
            acc += len(ch.encode('utf-8'))
            enc_prefix.append(acc)
        tobyte = lambda i: enc_prefix[i]
    else:
        tobyte = lambda i: i
    impls = []
    for mm in _IMPL_RE.finditer(m):
        ob = next_open_brace(m, mm.end())
        if ob < 0:
            continue
        try:
            cb = match_brace(m, ob)
        except Exception:
            continue
        impls.append((ob, cb, mm.group(1)))
    res = []
    for mm in _FN_RE.finditer(m):
        q = mm.group(1)
        for (ob, cb, ty) in impls:
            if ob < mm.start() < cb:
                q = ty + '::' + q
                break
        # the item starts at its qualifiers (`pub open spec fn ..`), not at the `fn` keyword
        head = m[max(0, mm.start() - 120):mm.start()]
        qm = re.search(r'((?:pub(?:\s*\([^)]*\))?\s+)?(?:(?:const|open|closed|broadcast|proof|spec|exec|uninterp|unsafe)\s+)*)$', head)
        st = mm.start() - (len(qm.group(1)) if qm else 0)
        res.append((tobyte(st), q))
    return res


def _owner(fn_spans, byte_off):
    name = None
    for (a, n) in fn_spans:
        if a <= byte_off:
            name = n
        else:
            break
    return name


def sha(text):
    return hashlib.sha256(text.encode('utf-8')).hexdigest()[:16]
