#!/usr/bin/env python3
"""run_check - decide one property of /verif/properties.jsonl on /repo's current working tree.

    run_check.py <ID> [--tier quick|thorough] [--update-baseline] [--keep] [--replay PATH]

exit 0  every obligation of the property was discharged (known findings are printed, not alarms)
exit 1  a contract obligation that is discharged on the pinned tree fails now:
        prints `VIOLATION property=<id> replay=<path>[ no-failing-input-found]`
exit 2  undecided: lost anchor, unsupported construct, harness does not compile, timeout,
        vacuity guard tripped.  Never a VIOLATION line.
"""
import argparse
import datetime
import fcntl
import importlib
import json
import os
import re
import shutil
import subprocess
import sys
import time

HERE = os.path.dirname(os.path.abspath(__file__))
VERIF = os.path.dirname(HERE)
sys.path.insert(0, HERE)
sys.path.insert(0, os.path.join(VERIF, 'verus', 'units'))
sys.path.insert(0, os.path.join(VERIF, 'kani'))
sys.path.insert(0, VERIF)

import vunit  # noqa: E402
from rsx import LostAnchor  # noqa: E402

REPO = os.environ.get('VERIF_REPO', '/repo')
WORK_BASE = os.environ.get('VERIF_WORK', '/var/tmp/rpm-verif')
KANI_TARGET = os.path.join(VERIF, '.cache', 'kani-target')


def log(*a):
    print(*a, file=sys.stderr, flush=True)


# ------------------------------------------------------------------------------------------
def snapshot(workdir):
    dst = os.path.join(workdir, 'repo')
    os.makedirs(dst, exist_ok=True)
    subprocess.run(['rsync', '-a', '--delete', '--exclude', '/target', '--exclude', '/.git', REPO + '/', dst + '/'],
                   check=True)
    return dst


def repo_state():
    try:
        head = subprocess.run(['git', '-C', REPO, 'rev-parse', 'HEAD'], capture_output=True, text=True).stdout.strip()
        dirty = subprocess.run(['git', '-C', REPO, 'status', '--porcelain', '--untracked-files=no'],
                               capture_output=True, text=True).stdout.strip()
        return head[:12] + ('+dirty' if dirty else '')
    except Exception:
        return 'unknown'


# ------------------------------------------------------------------------------------------
# Verus side
def run_verus_units(prop, spec, snap, workdir, tier, seed):
    """returns list of obligation dicts and unit-level info"""
    obligations = []
    units_info = []
    undecided = []
    for uname in spec.get('verus', []):
        try:
            unit = importlib.import_module(uname)
        except Exception as e:  # unit file broken: framework error
            undecided.append('unit %s cannot be loaded: %r' % (uname, e))
            continue
        mine = {fn: props for fn, props in unit.OBLIGATIONS.items() if prop in props}
        optional = {fn: props for fn, props in getattr(unit, 'OPTIONAL', {}).items() if prop in props}
        if not mine:
            continue
        try:
            asm = vunit.assemble(unit, snap)
        except LostAnchor as e:
            undecided.append('unit %s: lost anchor: %s' % (uname, e))
            continue
        seeds = [None]
        if tier == 'thorough':
            seeds = [None, 1 + (seed % 1000), 7 + (seed % 1000)]
        res = None
        unstable = []
        for sd in seeds:
            r = vunit.run_verus(asm, os.path.join(workdir, 'verus'), seed=sd, rlimit=30,
                                timeout=(1800 if tier == 'thorough' else 600))
            if res is None:
                res = r
            else:
                for fn in mine:
                    a = res['functions'].get(fn, {}).get('success')
                    b = r['functions'].get(fn, {}).get('success')
                    if a != b:
                        unstable.append(fn)
                res['smt_ms'] += r['smt_ms']
                res['wall_s'] += r['wall_s']
        # a resource-limit hit is not a verdict: retry once with a 10x budget, then undecided
        def _rlimited(rr):
            out = []
            for fn in mine:
                f = rr['functions'].get(fn)
                if f is not None and not f['success']:
                    errs = [e for e in rr['errors'] if e.get('function') == fn]
                    if errs and all(('rlimit' in e['message'] or 'Resource limit' in e['message']) for e in errs):
                        out.append(fn)
            return out
        rl = _rlimited(res)
        if rl:
            r2 = vunit.run_verus(asm, os.path.join(workdir, 'verus'), rlimit=300,
                                 timeout=(3600 if tier == 'thorough' else 1200))
            r2['wall_s'] += res['wall_s']
            r2['smt_ms'] += res['smt_ms']
            res = r2
            for fn in _rlimited(res):
                undecided.append('unit %s: %s hits the solver resource limit even at rlimit 300 - undecided' % (uname, fn))
                res['functions'][fn]['rlimit_only'] = True
        info = dict(unit=uname, cmd=res['cmd'], wall_s=res['wall_s'], smt_ms=res['smt_ms'], rc=res['rc'],
                    verified=res.get('verified'), errors=res.get('n_errors'),
                    sha_unit=vunit.sha(asm.text),
                    extracted=[], assumptions=vunit.scan_assumptions(asm.text), seeds=len(seeds))
        for (a, b, part, item) in asm.segments:
            if item is not None:
                info['extracted'].append(dict(item=item.name, file=os.path.relpath(item.src.path, snap),
                                              lines=[item.first_line, item.last_line],
                                              sha256=vunit.sha(item.orig),
                                              rewrites=[[r, n] for r, n in part.applied]))
        units_info.append(info)
        if res['hard_errors']:
            undecided.append('unit %s: verus rejected the unit (unsupported construct / type error):\n%s'
                             % (uname, '\n'.join(str(h)[:1500] for h in res['hard_errors'][:6])))
            continue
        if unstable:
            undecided.append('unit %s: unstable under reseeding: %s' % (uname, sorted(set(unstable))))
        # vacuity canaries
        canaries = getattr(unit, 'CANARIES', [])
        for c in canaries:
            f = res['functions'].get(c)
            if f is None:
                undecided.append('unit %s: canary %s missing' % (uname, c))
            elif f['success']:
                undecided.append('unit %s: canary %s VERIFIED - contradictory precondition or prelude' % (uname, c))
        info['canaries'] = dict(expected_fail=len(canaries),
                                failed=sum(1 for c in canaries if c in res['functions'] and not res['functions'][c]['success']))
        # every failing function must be an obligation or a canary
        for fn, f in res['functions'].items():
            if not f['success'] and fn not in unit.OBLIGATIONS and fn not in canaries and fn not in getattr(unit, 'OPTIONAL', {}):
                undecided.append('unit %s: non-obligation function %s fails' % (uname, fn))
        for fn in optional:   # contracts for functions that exist only after an edit (overrides of std defaults)
            if fn in res['functions']:
                mine[fn] = optional[fn]
        for fn in mine:
            f = res['functions'].get(fn)
            ob = dict(name='V:%s:%s' % (uname, fn), backend='verus/z3', unit=uname, function=fn, bounded=None,
                      optional=(fn in optional))
            if f is None:
                ob['status'] = 'missing'
                undecided.append('unit %s: obligation %s produced no verification condition' % (uname, fn))
            else:
                ob['status'] = 'discharged' if f['success'] else ('undecided' if f.get('rlimit_only') else 'failed')
                ob['time_s'] = round(f['time_us'] / 1e6, 3)
                if not f['success']:
                    ob['failures'] = [e for e in res['errors'] if e.get('function') == fn]
                    if not ob['failures']:
                        ob['failures'] = [dict(message='verification failed (no diagnostic attributed)',
                                               snippet='', rendered=res['raw_err'][-1500:])]
            obligations.append(ob)
    return obligations, units_info, undecided


# ------------------------------------------------------------------------------------------
# Kani side
def kani_overlay(snap, modules, attach):
    """Append one `#[cfg(kani)] #[path=..] mod` line at the END of each source file that a
    harness module attaches to.  Existing lines are never edited."""
    done = []
    for mod in modules:
        target = attach[mod]
        src = os.path.join(VERIF, 'kani', mod)
        tpath = os.path.join(snap, target)
        if not os.path.exists(tpath):
            raise LostAnchor('kani attach point %s is gone' % target)
        modname = 'kani_verif_' + os.path.splitext(mod)[0]
        with open(tpath, 'a') as f:
            f.write('\n#[cfg(kani)]\n#[path = "%s"]\nmod %s;\n' % (src, modname))
        done.append((mod, target))
    return done


def run_kani(prop, spec, snap, workdir, tier):
    import registry
    hs = [h for h in registry.HARNESSES if prop in h['props'] and (tier == 'thorough' or h.get('tier', 'quick') == 'quick')]
    if not hs:
        return [], [], []
    undecided = []
    modules = sorted(set(h['module'] for h in hs))
    try:
        kani_overlay(snap, modules, registry.ATTACH)
    except LostAnchor as e:
        return [], [], ['kani overlay: %s' % e]
    os.makedirs(KANI_TARGET, exist_ok=True)
    results = {}
    infos = []
    # group by (features) so that each cargo kani call compiles once
    groups = {}
    for h in hs:
        groups.setdefault(tuple(h.get('cargo_args', ())), []).append(h)
    for cargo_args, group in groups.items():
        tmo = max(h.get('timeout', 300) for h in group)
        if tier == 'thorough':
            tmo = max(tmo, 1800)
        out_json = os.path.join(workdir, 'kani-%s-%d.json' % (prop, len(infos)))
        cmd = ['cargo', 'kani', '--target-dir', KANI_TARGET, '-Z', 'function-contracts', '-Z', 'stubbing',
               '-Z', 'unstable-options', '--harness-timeout', '%ds' % tmo, '--export-json', out_json,
               '--output-format', 'terse', '-j', str(min(8, len(group))), '--exact']
        cmd += list(cargo_args)
        for h in group:
            cmd += ['--harness', registry.full_name(h)]
        env = dict(os.environ, CARGO_NET_OFFLINE='true')
        t0 = time.time()
        lock = open(os.path.join(VERIF, '.cache', 'kani.lock'), 'w')
        fcntl.flock(lock, fcntl.LOCK_EX)
        try:
            p = subprocess.run(cmd, cwd=snap, env=env, capture_output=True, text=True,
                               timeout=tmo * max(1, (len(group) + 7) // 8) + 900)
            rc, out, err = p.returncode, p.stdout, p.stderr
        except subprocess.TimeoutExpired as e:
            rc, out, err = 124, str(e.stdout or ''), str(e.stderr or '')
        finally:
            fcntl.flock(lock, fcntl.LOCK_UN)
            lock.close()
        wall = time.time() - t0
        info = dict(cmd=' '.join(cmd), wall_s=round(wall, 1), rc=rc)
        infos.append(info)
        j = None
        if os.path.exists(out_json):
            try:
                j = json.load(open(out_json))
            except Exception:
                j = None
        if j is None:
            tail = (out + '\n' + err)[-4000:]
            undecided.append('kani did not produce results (rc=%s) - harness compile error or tool failure:\n%s' % (rc, tail))
            continue
        info['tools'] = {k: v for k, v in j.get('tools', {}).items() if k != 'solvers'}
        stats = {c['harness_id']: c for c in j.get('cbmc', [])}
        pdet = {c['harness_id']: c.get('property_details', {}) for c in j.get('property_details', [])}
        for r in j.get('verification_results', {}).get('results', []):
            results[r['harness_id']] = (r, stats.get(r['harness_id'], {}), pdet.get(r['harness_id'], {}), out)
        info['stdout_tail'] = out[-1500:]
    obligations = []
    for h in hs:
        full = registry.full_name(h)
        ob = dict(name='K:%s' % h['name'], backend='kani/cbmc', harness=full, bounded=h.get('bounded'),
                  module=h['module'], doc=h.get('doc', ''))
        if full not in results:
            ob['status'] = 'missing'
            undecided.append('kani harness %s produced no result (timeout or compile problem)' % h['name'])
            obligations.append(ob)
            continue
        r, st, pd, out = results[full]
        ob['time_s'] = round(r.get('duration_ms', 0) / 1000.0, 2)
        ob['solver'] = (st.get('configuration') or {}).get('solver')
        ob['solver_s'] = (st.get('cbmc_stats') or {}).get('runtime_decision_procedure_s')
        ob['checks'] = pd.get('total_properties')
        checks = r.get('checks', [])
        failed = [c for c in checks if c.get('status') in ('Failure', 'FAILURE')]
        unsat_cover = [c for c in checks if c.get('status') in ('Unsatisfiable', 'UNSATISFIABLE')]
        undet = [c for c in checks if c.get('status') in ('Undetermined', 'UNDETERMINED', 'Unreachable_', )]
        unsupported = [c for c in failed if 'unsupported' in (c.get('category', '') + c.get('description', '')).lower()
                       or 'unwinding assertion' in c.get('description', '')]
        ob['covers_satisfied'] = pd.get('satisfied', 0)
        if r.get('status') == 'Success':
            ob['status'] = 'discharged'
            if unsat_cover:
                ob['status'] = 'vacuous'
                undecided.append('kani harness %s: cover unsatisfiable -> vacuous: %s'
                                 % (h['name'], [c.get('description') for c in unsat_cover][:3]))
        else:
            real = [c for c in failed if c not in unsupported]
            if unsupported and not real:
                ob['status'] = 'undecided'
                undecided.append('kani harness %s: %s' % (h['name'], [c.get('description') for c in unsupported][:3]))
            elif not failed:
                ob['status'] = 'undecided'
                undecided.append('kani harness %s: status %s without failed checks (timeout / OOM / solver error)'
                                 % (h['name'], r.get('status')))
            else:
                ob['status'] = 'failed'
                ob['failures'] = [dict(message=c.get('description', ''), snippet='%s @ %s:%s' % (
                    c.get('function', ''), c.get('location', {}).get('file', ''), c.get('location', {}).get('line', '')),
                    category=c.get('category')) for c in real[:12]]
        obligations.append(ob)
    return obligations, infos, undecided


def kani_playback(h, snap, workdir):
    """Concrete playback of a failed harness: ask Kani for the counterexample as a unit test,
    add it to the overlay module of the snapshot and execute it natively against the real
    crate.  Returns dict(values, test, native_output, reproduced)."""
    import registry
    full = registry.full_name(h)
    env = dict(os.environ, CARGO_NET_OFFLINE='true')
    cmd = ['cargo', 'kani', '--target-dir', KANI_TARGET, '-Z', 'function-contracts', '-Z', 'stubbing',
           '-Z', 'concrete-playback', '--concrete-playback=print', '-Z', 'unstable-options',
           '--harness-timeout', '900s', '--exact', '--harness', full]
    cmd += list(h.get('cargo_args', ()))
    try:
        p = subprocess.run(cmd, cwd=snap, env=env, capture_output=True, text=True, timeout=1200)
    except subprocess.TimeoutExpired:
        return dict(error='playback generation timed out')
    m = re.search(r'```\n(.*?)```', p.stdout, re.S)
    if not m:
        return dict(error='kani printed no concrete playback test', tail=p.stdout[-1500:])
    test = m.group(1)
    res = dict(test=test)
    vals = re.findall(r'//\s*(.+)\n\s*vec!\[([^\]]*)\]', test)
    res['values'] = [dict(value=a.strip(), bytes=b.strip()) for a, b in vals]
    # run natively: write the test into the harness module copy used by this snapshot
    modsrc = os.path.join(VERIF, 'kani', h['module'])
    local = os.path.join(workdir, 'playback_' + h['module'])
    shutil.copy(modsrc, local)
    with open(local, 'a') as f:
        f.write('\n' + test + '\n')
    target = os.path.join(snap, registry.ATTACH[h['module']])
    s = open(target).read().replace(modsrc, local)
    open(target, 'w').write(s)
    tn = re.search(r'fn\s+(kani_concrete_playback_\w+)', test)
    if not tn:
        return res
    cmd = ['cargo', 'kani', 'playback', '-Z', 'concrete-playback'] + \
        list(h.get('cargo_args', ())) + ['--', tn.group(1)]
    env['CARGO_TARGET_DIR'] = os.path.join(VERIF, '.cache', 'playback-target')
    try:
        p = subprocess.run(cmd, cwd=snap, env=env, capture_output=True, text=True, timeout=1500)
        res['native_cmd'] = ' '.join(cmd)
        res['native_output'] = (p.stdout + p.stderr)[-3000:]
        res['reproduced'] = ('panicked' in res['native_output'] or 'FAILED' in res['native_output'])
    except subprocess.TimeoutExpired:
        res['native_output'] = 'native playback timed out'
    return res


# ------------------------------------------------------------------------------------------
def load_known():
    p = os.path.join(VERIF, 'known_findings.json')
    if not os.path.exists(p):
        return dict(findings=[], fixed=[])
    return json.load(open(p))


def finding_matches(fd, prop, ob, failure):
    if fd.get('property') != prop or fd.get('obligation') != ob['name']:
        return False
    m = fd.get('match', {})
    if 'message' in m and m['message'] not in failure.get('message', ''):
        return False
    if 'snippet' in m and m['snippet'] not in failure.get('snippet', ''):
        return False
    return True


def main():
    ap = argparse.ArgumentParser()
    ap.add_argument('prop')
    ap.add_argument('--tier', default=os.environ.get('VERIF_TIER', 'quick'))
    ap.add_argument('--update-baseline', action='store_true')
    ap.add_argument('--keep', action='store_true')
    ap.add_argument('--replay')
    args = ap.parse_args()
    prop = args.prop
    tier = args.tier if args.tier in ('quick', 'thorough') else 'quick'
    seed = int(os.environ.get('VERIF_SEED', '0') or 0)
    import props as props_mod
    if prop not in props_mod.PROPS:
        log('property %s is not claimed (see MANIFEST.json not_applicable)' % prop)
        sys.exit(2)
    spec = props_mod.PROPS[prop]
    if args.replay:
        print(open(args.replay).read())
        return
    t0 = time.time()
    workdir = os.path.join(WORK_BASE, '%s-%d' % (prop, os.getpid()))
    os.makedirs(workdir, exist_ok=True)
    os.makedirs(os.path.join(VERIF, '.cache'), exist_ok=True)
    rc = 2
    try:
        rc = decide(prop, spec, tier, seed, workdir, t0, args)
    finally:
        if not args.keep:
            shutil.rmtree(workdir, ignore_errors=True)
    sys.exit(rc)


def decide(prop, spec, tier, seed, workdir, t0, args):
    snap = snapshot(workdir)
    undecided = []
    v_obs, v_info, u1 = run_verus_units(prop, spec, snap, workdir, tier, seed)
    if os.environ.get('VERIF_ONLY') == 'verus':  # development aid only; never used by MANIFEST commands
        k_obs, k_info, u2 = [], [], []
    else:
        k_obs, k_info, u2 = run_kani(prop, spec, snap, workdir, tier)
    undecided += u1 + u2
    obs = v_obs + k_obs
    # baseline
    bpath = os.path.join(VERIF, 'contracts', 'BASELINE_OBLIGATIONS.json')
    baseline = json.load(open(bpath)) if os.path.exists(bpath) else {}
    base = set(baseline.get(prop, {}).get(tier, baseline.get(prop, {}).get('quick', [])))
    if args.update_baseline:
        new = set(o['name'] for o in obs if o['status'] == 'discharged')
        if os.environ.get('VERIF_ONLY'):
            new |= set(baseline.get(prop, {}).get(tier, []))
        baseline.setdefault(prop, {})[tier] = sorted(new)
        json.dump(baseline, open(bpath, 'w'), indent=1, sort_keys=True)
        base = set(baseline[prop][tier])
    known = load_known()
    violations = []
    known_hits = []
    for o in obs:
        if o['status'] != 'failed':
            continue
        unmatched = []
        for f in o.get('failures', []):
            hit = [fd for fd in known.get('findings', []) if finding_matches(fd, prop, o, f)]
            if hit:
                known_hits.append((o, f, hit[0]))
            else:
                unmatched.append(f)
        if unmatched:
            if o['name'] in base or not base or o.get('optional'):
                violations.append((o, unmatched))
            else:
                undecided.append('obligation %s fails but has never been discharged on the pinned tree '
                                 '(not in BASELINE_OBLIGATIONS) - undecided, not an alarm' % o['name'])
    # obligations expected by the baseline but absent now -> undecided
    names = set(o['name'] for o in obs)
    for b in base:
        if b not in names and not os.environ.get('VERIF_ONLY'):
            undecided.append('baseline obligation %s was not generated by this run' % b)
    # ---- replay files
    vio_lines = []
    if violations:
        import registry
        rdir = os.path.join(VERIF, 'replays', prop) if not os.environ.get('VERIF_NO_EVIDENCE') else os.path.join(workdir, 'replays')
        os.makedirs(rdir, exist_ok=True)
        n_playbacks = 0
        for o, fails in violations:
            rp = os.path.join(rdir, re.sub(r'[^A-Za-z0-9_.-]', '_', o['name']) + '.json')
            doc = dict(property=prop, obligation=o['name'], backend=o['backend'], repo=repo_state(),
                       when=datetime.datetime.utcnow().isoformat() + 'Z', failures=fails, tier=tier)
            no_input = True
            if o['backend'].startswith('kani'):
                h = [h for h in registry.HARNESSES if h['name'] == o['name'][2:]][0]
                n_playbacks += 1
                if n_playbacks <= 2:   # concrete playback costs a CBMC re-run + native build: first two failures only
                    pb = kani_playback(h, snap, workdir)
                else:
                    pb = dict(error='concrete playback skipped (more than two failed harnesses in this run; see the first two replay files)')
                doc['concrete_playback'] = pb
                if pb.get('values'):
                    no_input = False
            else:
                doc['note'] = ('Verus gives no counterexample; the failed obligation, the clause and the source '
                               'span in /repo are listed under `failures`.')
                twin = spec.get('kani_twins', {}).get(o['function']) if 'function' in o else None
                if twin:
                    doc['kani_twin'] = twin
            json.dump(doc, open(rp, 'w'), indent=1)
            vio_lines.append('VIOLATION property=%s replay=%s%s' % (prop, rp, ' no-failing-input-found' if no_input else ''))
    # ---- evidence
    proved = [o for o in obs if not o.get('bounded')]
    bounded = [o for o in obs if o.get('bounded')]
    wall = time.time() - t0
    trusted = list(spec.get('trusted_base', []))
    assumptions = list(spec.get('assumptions', []))
    for ui in v_info:
        assumptions.append('verus unit %s: mechanical scan: %s' % (ui['unit'], ', '.join(ui['assumptions']) or 'none'))
    ev = dict(
        property_id=prop, tier=tier, seed=seed, level=spec.get('level', 'proof'),
        coverage=dict(
            obligations=len(proved),
            discharged=sum(1 for o in proved if o['status'] == 'discharged'),
            bounded_obligations=len(bounded),
            bounded_discharged=sum(1 for o in bounded if o['status'] == 'discharged'),
            bounds=sorted(set('%s: %s' % (o['name'], o['bounded']) for o in bounded)),
            checker_cmd='; '.join([u['cmd'] for u in v_info] + [k['cmd'] for k in k_info]) or 'none',
            trusted_base=trusted,
            samples=[dict(obligation=o['name'], backend=o['backend'], status=o['status'],
                          time_s=o.get('time_s'), bounded=o.get('bounded'), solver=o.get('solver', 'z3'),
                          checks=o.get('checks'), doc=o.get('doc', ''))
                     for o in obs],
            functions_under_contract=[e for ui in v_info for e in ui['extracted']] +
                                     [dict(harness=o['harness'], module=o['module']) for o in k_obs],
            verus_units=[{k: v for k, v in ui.items() if k not in ('extracted',)} for ui in v_info],
            kani_runs=[{k: v for k, v in ki.items() if k != 'stdout_tail'} for ki in k_info],
            solver_time_s=round(sum(ui['smt_ms'] for ui in v_info) / 1000.0 +
                                sum((o.get('solver_s') or 0) for o in k_obs), 3),
            canaries=[ui.get('canaries') for ui in v_info],
            known_findings=[dict(obligation=o['name'], what=fd.get('what')) for o, f, fd in known_hits],
            undecided=undecided,
            repo_state=repo_state(),
            explanation=spec.get('explanation', ''),
            exhaustive=False,
        ),
        assumptions=assumptions,
        wall_s=round(wall, 2),
        violations=len(violations),
    )
    # development runs (a scratch repo, or one back end only) never overwrite the evidence of a complete run
    if not os.environ.get('VERIF_NO_EVIDENCE') and not os.environ.get('VERIF_ONLY'):
        os.makedirs(os.path.join(VERIF, 'evidence'), exist_ok=True)
        json.dump(ev, open(os.path.join(VERIF, 'evidence', prop + '.json'), 'w'), indent=1)
    # ---- verdict
    seen = set()
    for o, f, fd in known_hits:
        key = (o['name'], fd.get('what'))
        if key in seen:
            continue
        seen.add(key)
        print('KNOWN-FINDING: property=%s %s: %s' % (prop, o['name'], fd.get('what')))
    for o in obs:
        log('  %-12s %-60s %s%s' % (o['status'], o['name'], o.get('time_s', ''), ' [bounded: %s]' % o['bounded'] if o.get('bounded') else ''))
        if o['status'] == 'failed':
            for f in o.get('failures', [])[:8]:
                log('      - %s | %s' % (f.get('message'), f.get('snippet')))
    if vio_lines:
        for l in vio_lines:
            print(l)
        return 1
    if undecided:
        for u in undecided:
            log('UNDECIDED: ' + u)
        return 2
    if not obs:
        log('UNDECIDED: no obligations generated')
        return 2
    print('OK property=%s tier=%s obligations=%d discharged=%d bounded=%d/%d wall=%.1fs' % (
        prop, tier, ev['coverage']['obligations'], ev['coverage']['discharged'],
        ev['coverage']['bounded_discharged'], ev['coverage']['bounded_obligations'], wall))
    return 0


if __name__ == '__main__':
    try:
        main()
    except SystemExit:
        raise
    except BaseException as e:  # a framework failure is never an alarm
        import traceback
        traceback.print_exc()
        log('UNDECIDED: framework error %r' % (e,))
        sys.exit(2)
