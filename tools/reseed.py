#!/usr/bin/env python3
"""Re-run the checks against stored seeded changes and record the verdicts in their meta.json
(field `check_verdicts_rerun`, keyed by /verif commit).  usage: reseed.py [seed-id ...]   (default: all)
Environment as for mutate.py (VERIF_ONLY=verus for the Verus obligations only)."""
import json, os, subprocess, sys
root = '/verif/seeded'
ids = sys.argv[1:] or sorted(os.listdir(root))
head = subprocess.run(['git', '-C', '/verif', 'rev-parse', '--short', 'HEAD'], capture_output=True, text=True).stdout.strip()
for sid in ids:
    mp = os.path.join(root, sid, 'meta.json')
    meta = json.load(open(mp))
    props = list(meta.get('check_verdicts', {}).keys()) or [meta['property']]
    out = {}
    for p in props:
        r = subprocess.run(['python3', '/verif/tools/mutate.py', p, '--patch', os.path.join(root, sid, 'patch.diff')],
                           capture_output=True, text=True, timeout=7200)
        out[p] = r.stdout.strip().splitlines()[:8]
        print(sid, p, ' | '.join(out[p][:2])[:200], flush=True)
    meta.setdefault('check_verdicts_rerun', {})['after ' + head + (' (VERIF_ONLY=%s)' % os.environ['VERIF_ONLY'] if os.environ.get('VERIF_ONLY') else '')] = out
    json.dump(meta, open(mp, 'w'), indent=1)
