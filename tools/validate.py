"""Schema validation of MANIFEST.json and every evidence file, plus the consistency a committed
evidence file must have: it records a run on the unchanged tree (every obligation discharged, no
violation, no failed sample).  Run before every commit: python3-vt tools/validate.py"""
import json, sys, glob, jsonschema
jsonschema.validate(json.load(open('/verif/MANIFEST.json')), json.load(open('/root/.vp/MANIFEST.schema.json')))
es = json.load(open('/root/.vp/EVIDENCE.schema.json'))
bad = 0
for f in sorted(glob.glob('/verif/evidence/*.json')):
    e = json.load(open(f))
    jsonschema.validate(e, es)
    c = e['coverage']
    probs = []
    if c['discharged'] != c['obligations']:
        probs.append('discharged %s != obligations %s' % (c['discharged'], c['obligations']))
    if c.get('bounded_discharged') != c.get('bounded_obligations'):
        probs.append('bounded_discharged != bounded_obligations')
    if e.get('violations'):
        probs.append('%s violations recorded' % e['violations'])
    if any(s.get('status') != 'discharged' for s in c.get('samples', [])):
        probs.append('a sample is not discharged')
    print('valid' if not probs else 'STALE', f, '; '.join(probs))
    bad += bool(probs)
print('manifest valid')
sys.exit(1 if bad else 0)
