#!/usr/bin/env python3
"""Print the prompt given to an independent sub-agent that seeds a property-breaking change.
usage: agent_prompt.py C07 /tmp/wt-C07 [variant-hint]"""
import json, sys
pid, wt = sys.argv[1], sys.argv[2]
hint = sys.argv[3] if len(sys.argv) > 3 else ''
p = [json.loads(l) for l in open('/verif/properties.jsonl') if json.loads(l)['id'] == pid][0]
print(f"""You are helping to evaluate a verification effort on the Rust crate rpm-rs/rpm (a pure-Rust library for parsing, building, signing and verifying RPM packages). You have your own scratch git worktree of the repository at {wt} (detached HEAD). Work ONLY inside {wt}; never touch /repo or /verif, and do not read anything under /verif.

The sandbox has no network. Build and test offline: `cd {wt} && cargo test --workspace --no-fail-fast --offline` (use `CARGO_TARGET_DIR={wt}/target`, the default). The existing suite has 42 tests and all pass on the unmodified tree.

Here is a semantic property that the library is supposed to satisfy:

  {p['id']} - {p['title']}
  {p['statement']}
  Quantified over: {p['quantifier']['text']}

Your task: make ONE small, realistic change to the library source under {wt}/src (the kind of regression a plausible refactoring or 'optimisation' could introduce) that BREAKS this property while
  (a) the crate still compiles, and
  (b) the whole existing test suite still passes unchanged (do not edit or delete existing tests), and
  (c) the breakage needs something specific to manifest - an unusual input, a particular boundary value, a multi-step sequence of operations, a fault at a particular point, or two cooperating sites that each look fine alone - rather than being exposed at once by ordinary use.
{hint}
Then write a demonstration: a new integration test file {wt}/tests/seeded_demo.rs (or a small example program) that FAILS with your change and PASSES on the unmodified tree. Verify both directions yourself: run the demo with your change (must fail), then save and remove the src change with `git diff -- src > {wt}.patch && git checkout -- src` (keep the demo; do NOT use `git stash`, the stash is shared between worktrees), run it again (must pass), then re-apply with `git apply {wt}.patch`. Also run the full existing suite with your change and confirm all 42 tests pass.

Do NOT commit anything. When done, leave the worktree with your change applied and the demo file present, and write these files:
  {wt}/SEEDED/patch.diff   - output of `git diff -- src` (the source change only)
  {wt}/SEEDED/demo.rs      - copy of the demonstration test
  {wt}/SEEDED/meta.json    - JSON: {{"property": "{pid}", "summary": "...what the change does...", "needs_to_manifest": "...what specific input/sequence exposes it...", "files_changed": [...], "commands_run": [...], "demo_fails_with_change": true/false, "demo_passes_without_change": true/false, "suite_passes_with_change": true/false}}

Keep the change minimal (a few lines). Prefer changes in the code that actually implements the property rather than in unrelated places. Report back a short summary of what you changed, what exposes it, and the results of your three verification runs.""")
