// ---- leaf contracts proved by Kani on the real functions (A-LEAF-LINK) ------------------------
// Each `external_body` below is NOT an assumption about the repository: its `ensures` is the
// assertion set of the named Kani harness, which runs the real function (with real nom) on
// every input of the stated size.
impl IndexHeader {
    /// K:k_intro_fields  (all 16-byte inputs; src/rpm/headers/header.rs IndexHeader::parse)
    #[verifier::external_body]
    pub fn parse(input: &[u8]) -> (r: Result<IndexHeader, Error>)
        requires input@.len() == 16,
        ensures
            r is Ok <==> (input@[0] == 0x8e && input@[1] == 0xad && input@[2] == 0xe8 && input@[3] == 1),
            r is Ok ==> {
                let h = r->Ok_0;
                &&& h.magic@ == HEADER_MAGIC@
                &&& h.version == 1
                &&& h.num_entries == dec32(input@.subrange(8, 12))
                &&& h.data_section_size == dec32(input@.subrange(12, 16))
            },
    {
        unimplemented!()
    }
}
impl<T: Tag> IndexEntry<T> {
    /// K:k_entry_fields + K:k_entry_short  (all inputs of 0..=24 bytes; IndexEntry::parse)
    #[verifier::external_body]
    pub fn parse(input: &[u8]) -> (r: Result<(&[u8], IndexEntry<T>), Error>)
        ensures
            input@.len() < 16 ==> r is Err,
            r is Ok ==> {
                let rest = r->Ok_0.0;
                let e = r->Ok_0.1;
                &&& input@.len() >= 16
                &&& rest@ == input@.subrange(16, input@.len() as int)
                &&& e.tag == dec32(input@.subrange(0, 4))
                &&& ty_code(e.data) == dec32(input@.subrange(4, 8))
                &&& ty_code(e.data) < 10
                &&& e.offset == bits_i32(dec32(input@.subrange(8, 12)))
                &&& e.num_items == dec32(input@.subrange(12, 16))
                &&& data_empty(e.data)
            },
    {
        unimplemented!()
    }
}
