// ---- R5: the tag enums, restricted to the variants the extracted bodies name -------------------
// Numeric values are rpm's (lib/rpmtag.h); K:k_tag_values checks each against `as u32` of the
// real enums of src/constants.rs.
#[derive(Clone, Copy)]
pub enum IndexSignatureTag {
    HEADER_SIGNATURES,
    RPMSIGTAG_SHA1,
    RPMSIGTAG_MD5,
    RPMSIGTAG_DSA,
    RPMSIGTAG_RSA,
    RPMSIGTAG_OPENPGP,
    RPMSIGTAG_PGP,
    RPMSIGTAG_SHA256,
}
#[derive(Clone, Copy)]
pub enum IndexTag {
    RPMTAG_HEADERIMMUTABLE,
    RPMTAG_SIZE,
    RPMTAG_LONGSIZE,
    RPMTAG_PAYLOADDIGEST,
    RPMTAG_PAYLOADDIGESTALGO,
}
impl Tag for IndexSignatureTag {
    open spec fn spec_to_u32(&self) -> u32 {
        match *self {
            IndexSignatureTag::HEADER_SIGNATURES => 62,
            IndexSignatureTag::RPMSIGTAG_SHA1 => 269,
            IndexSignatureTag::RPMSIGTAG_MD5 => 1004,
            IndexSignatureTag::RPMSIGTAG_DSA => 267,
            IndexSignatureTag::RPMSIGTAG_RSA => 268,
            IndexSignatureTag::RPMSIGTAG_OPENPGP => 278,
            IndexSignatureTag::RPMSIGTAG_PGP => 1002,
            IndexSignatureTag::RPMSIGTAG_SHA256 => 273,
        }
    }
    #[verifier::external_body]
    fn to_u32(&self) -> u32 { unimplemented!() }
}
impl Tag for IndexTag {
    open spec fn spec_to_u32(&self) -> u32 {
        match *self {
            IndexTag::RPMTAG_HEADERIMMUTABLE => 63,
            IndexTag::RPMTAG_SIZE => 1009,
            IndexTag::RPMTAG_LONGSIZE => 5009,
            IndexTag::RPMTAG_PAYLOADDIGEST => 5092,
            IndexTag::RPMTAG_PAYLOADDIGESTALGO => 5093,
        }
    }
    #[verifier::external_body]
    fn to_u32(&self) -> u32 { unimplemented!() }
}
