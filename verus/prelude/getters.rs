// ---- typed header getters: contracts proved on the real getters by K:k_getters_* ---------------
// "returns the data of the FIRST entry whose tag equals `tag` if its variant is the requested
//  one, Err otherwise (TagNotFound when absent, UnexpectedTagDataType on a type mismatch)".
pub open spec fn first_idx<T: Tag>(es: Seq<IndexEntry<T>>, tag: u32) -> int
    decreases es.len(),
{
    if es.len() == 0 { 0 } else if es[0].tag == tag { 0 } else { 1 + first_idx(es.drop_first(), tag) }
}
pub open spec fn entry_of<T: Tag>(h: Header<T>, tag: u32) -> Option<IndexEntry<T>> {
    let i = first_idx(h.index_entries@, tag);
    if 0 <= i < h.index_entries@.len() { Some(h.index_entries@[i]) } else { None }
}
pub open spec fn get_bin<T: Tag>(h: Header<T>, tag: u32) -> Option<Seq<u8>> {
    match entry_of(h, tag) { Some(e) => match e.data { IndexData::Bin(d) => Some(d@), _ => None }, None => None }
}
pub open spec fn get_str<T: Tag>(h: Header<T>, tag: u32) -> Option<Seq<char>> {
    match entry_of(h, tag) { Some(e) => match e.data { IndexData::StringTag(d) => Some(d@), _ => None }, None => None }
}
pub open spec fn get_strarr<T: Tag>(h: Header<T>, tag: u32) -> Option<Seq<String>> {
    match entry_of(h, tag) {
        Some(e) => match e.data { IndexData::StringArray(d) => Some(d@), IndexData::I18NString(d) => Some(d@), _ => None },
        None => None,
    }
}
pub open spec fn get_i18n<T: Tag>(h: Header<T>, tag: u32) -> Option<Seq<char>> {
    match entry_of(h, tag) {
        Some(e) => match e.data { IndexData::I18NString(d) => if d@.len() > 0 { Some(d@[0]@) } else { None }, _ => None },
        None => None,
    }
}
pub open spec fn get_u32<T: Tag>(h: Header<T>, tag: u32) -> Option<u32> {
    match entry_of(h, tag) {
        Some(e) => match e.data { IndexData::Int32(d) => if d@.len() > 0 { Some(d@[0]) } else { None }, _ => None },
        None => None,
    }
}
pub open spec fn get_u32arr<T: Tag>(h: Header<T>, tag: u32) -> Option<Seq<u32>> {
    match entry_of(h, tag) { Some(e) => match e.data { IndexData::Int32(d) => Some(d@), _ => None }, None => None }
}
pub open spec fn get_u64arr<T: Tag>(h: Header<T>, tag: u32) -> Option<Seq<u64>> {
    match entry_of(h, tag) { Some(e) => match e.data { IndexData::Int64(d) => Some(d@), _ => None }, None => None }
}
pub open spec fn get_u64<T: Tag>(h: Header<T>, tag: u32) -> Option<u64> {
    match entry_of(h, tag) {
        Some(e) => match e.data { IndexData::Int64(d) => if d@.len() > 0 { Some(d@[0]) } else { None }, _ => None },
        None => None,
    }
}
impl<T: Tag> Header<T> {
    /// K:k_entry_is_present
    #[verifier::external_body]
    pub fn entry_is_present(&self, tag: T) -> (r: bool)
        ensures r == (entry_of(*self, tag.spec_to_u32()) is Some),
    { unimplemented!() }
    #[verifier::external_body]
    pub fn get_entry_data_as_binary(&self, tag: T) -> (r: Result<&[u8], Error>)
        ensures match get_bin(*self, tag.spec_to_u32()) { Some(d) => r is Ok && r->Ok_0@ == d, None => r is Err },
            (r is Err && entry_of(*self, tag.spec_to_u32()) is None) ==> r->Err_0 is TagNotFound,
    { unimplemented!() }
    #[verifier::external_body]
    pub fn get_entry_data_as_string(&self, tag: T) -> (r: Result<&str, Error>)
        ensures match get_str(*self, tag.spec_to_u32()) { Some(d) => r is Ok && r->Ok_0@ == d, None => r is Err },
            (r is Err && entry_of(*self, tag.spec_to_u32()) is None) ==> r->Err_0 is TagNotFound,
    { unimplemented!() }
    #[verifier::external_body]
    pub fn get_entry_data_as_i18n_string(&self, tag: T) -> (r: Result<&str, Error>)
        ensures match get_i18n(*self, tag.spec_to_u32()) { Some(d) => r is Ok && r->Ok_0@ == d, None => r is Err },
            (r is Err && entry_of(*self, tag.spec_to_u32()) is None) ==> r->Err_0 is TagNotFound,
    { unimplemented!() }
    #[verifier::external_body]
    pub fn get_entry_data_as_string_array(&self, tag: T) -> (r: Result<&[String], Error>)
        ensures match get_strarr(*self, tag.spec_to_u32()) { Some(d) => r is Ok && r->Ok_0@ == d, None => r is Err },
            (r is Err && entry_of(*self, tag.spec_to_u32()) is None) ==> r->Err_0 is TagNotFound,
    { unimplemented!() }
    #[verifier::external_body]
    pub fn get_entry_data_as_u32(&self, tag: T) -> (r: Result<u32, Error>)
        ensures match get_u32(*self, tag.spec_to_u32()) { Some(d) => r is Ok && r->Ok_0 == d, None => r is Err },
            (r is Err && entry_of(*self, tag.spec_to_u32()) is None) ==> r->Err_0 is TagNotFound,
    { unimplemented!() }
    /// V:c05_getters (over the find_entry_or_err contract)
    #[verifier::external_body]
    pub fn get_entry_data_as_u32_array(&self, tag: T) -> (r: Result<Vec<u32>, Error>)
        ensures match get_u32arr(*self, tag.spec_to_u32()) { Some(d) => r is Ok && r->Ok_0@ == d, None => r is Err },
            (r is Err && entry_of(*self, tag.spec_to_u32()) is None) ==> r->Err_0 is TagNotFound,
    { unimplemented!() }
    /// V:c05_getters (over the find_entry_or_err contract)
    #[verifier::external_body]
    pub fn get_entry_data_as_u64_array(&self, tag: T) -> (r: Result<Vec<u64>, Error>)
        ensures match get_u64arr(*self, tag.spec_to_u32()) { Some(d) => r is Ok && r->Ok_0@ == d, None => r is Err },
            (r is Err && entry_of(*self, tag.spec_to_u32()) is None) ==> r->Err_0 is TagNotFound,
    { unimplemented!() }
    #[verifier::external_body]
    pub fn get_entry_data_as_u64(&self, tag: T) -> (r: Result<u64, Error>)
        ensures match get_u64(*self, tag.spec_to_u32()) { Some(d) => r is Ok && r->Ok_0 == d, None => r is Err },
            (r is Err && entry_of(*self, tag.spec_to_u32()) is None) ==> r->Err_0 is TagNotFound,
    { unimplemented!() }
}
