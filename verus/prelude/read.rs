// ---- R3: the documented contract of std::io::Read / BufRead, for ANY source -------------------
// `remaining()` is the ghost content of the rest of the stream.  The contracts mention only
// that content, never how the source chunks its reads - which is exactly the C14 parse claim:
// a function verified against VRead is a function of the byte string.
//   read_exact(buf): Ok => buf is filled from the front of the stream and the stream advances
//                    by buf.len(); a stream shorter than buf.len() => Err (UnexpectedEof).
//   read_to_end(v):  Ok => the whole rest of the stream is appended to v.
//   take_read_to_end(n, v): R16 - stands for `r.by_ref().take(n).read_to_end(v)`
//                    (std::io::Take): Ok(k) => the first k = min(n, |rest|) bytes are appended.
// On Err nothing is promised about the stream position.
pub trait VRead {
    spec fn remaining(&self) -> Seq<u8>;
    fn read_exact(&mut self, buf: &mut [u8]) -> (r: Result<(), Error>)
        ensures
            final(buf)@.len() == old(buf)@.len(),
            match r {
                Ok(()) => old(self).remaining().len() >= old(buf)@.len()
                    && final(buf)@ == old(self).remaining().subrange(0, old(buf)@.len() as int)
                    && final(self).remaining() == old(self).remaining().subrange(old(buf)@.len() as int, old(self).remaining().len() as int),
                Err(_) => true,
            },
            old(self).remaining().len() < old(buf)@.len() ==> r is Err;
    fn read_to_end(&mut self, buf: &mut Vec<u8>) -> (r: Result<usize, Error>)
        ensures
            match r {
                Ok(k) => final(buf)@ == old(buf)@ + old(self).remaining()
                    && k == old(self).remaining().len()
                    && final(self).remaining() == Seq::<u8>::empty(),
                Err(_) => true,
            };
    fn take_read_to_end(&mut self, n: u64, buf: &mut Vec<u8>) -> (r: Result<usize, Error>)
        ensures
            match r {
                Ok(k) => k == (if n <= old(self).remaining().len() { n as int } else { old(self).remaining().len() as int })
                    && final(buf)@ == old(buf)@ + old(self).remaining().subrange(0, k as int)
                    && final(self).remaining() == old(self).remaining().subrange(k as int, old(self).remaining().len() as int),
                Err(_) => true,
            };
    /// std::io::BufRead::fill_buf: "Returns the contents of the internal buffer, filling it with more
    /// data from the inner reader if it is empty" - SOME non-empty prefix of the rest of the stream
    /// (empty only at end of stream); nothing is consumed.
    fn fill_buf(&mut self) -> (r: Result<&[u8], Error>)
        ensures final(self).remaining() == old(self).remaining(),
            r is Ok ==> r->Ok_0@.len() <= old(self).remaining().len()
                && r->Ok_0@ == old(self).remaining().subrange(0, r->Ok_0@.len() as int)
                && (old(self).remaining().len() > 0 ==> r->Ok_0@.len() > 0);
    /// std::io::BufRead::consume(amt): amt must not exceed what fill_buf returned
    fn consume(&mut self, amt: usize)
        requires amt <= old(self).remaining().len(),
        ensures final(self).remaining() == old(self).remaining().subrange(amt as int, old(self).remaining().len() as int);
}
/// further std::io::Read forms used by the cpio reader (src/rpm/payload.rs)
pub trait VReadExt: VRead {
    /// R17': `self.read(&mut buf[..limit])` - precondition = no-panic of the slicing.  std `read`
    /// delivers some n <= limit of the next bytes (n = 0 only at end of stream or for limit 0).
    fn read_limited(&mut self, buf: &mut [u8], limit: usize) -> (r: Result<usize, Error>)
        requires limit <= old(buf)@.len(),
        ensures
            final(buf)@.len() == old(buf)@.len(),
            match r {
                Ok(n) => n <= limit && n <= old(self).remaining().len()
                    && final(buf)@.subrange(0, n as int) == old(self).remaining().subrange(0, n as int)
                    && final(self).remaining() == old(self).remaining().subrange(n as int, old(self).remaining().len() as int)
                    && ((limit > 0 && old(self).remaining().len() > 0) ==> n > 0),
                Err(_) => true,
            };
    /// R16': `io::copy(&mut self.by_ref().take(n), &mut io::sink())` - discards min(n, |rest|) bytes
    fn skip_n(&mut self, n: u64) -> (r: Result<u64, Error>)
        ensures
            match r {
                Ok(k) => k == (if n <= old(self).remaining().len() { n as int } else { old(self).remaining().len() as int })
                    && final(self).remaining() == old(self).remaining().subrange(k as int, old(self).remaining().len() as int),
                Err(_) => true,
            };
}
/// R9: `Vec::from(slice)` (Verus cannot name the std impl's signature)
#[verifier::external_body]
pub fn slice_to_vec(s: &[u8]) -> (r: Vec<u8>)
    ensures r@ == s@,
{
    Vec::from(s)
}
/// big-endian decoding of a 4-byte / 2-byte string (what u32::from_be_bytes computes)
pub open spec fn dec32(s: Seq<u8>) -> u32
    recommends s.len() == 4,
{
    (s[0] as u32 * 0x1000000 + s[1] as u32 * 0x10000 + s[2] as u32 * 0x100 + s[3] as u32) as u32
}
pub open spec fn dec16(s: Seq<u8>) -> u16
    recommends s.len() == 2,
{
    (s[0] as u16 * 0x100 + s[1] as u16) as u16
}
pub open spec fn bits_i32(x: u32) -> i32 {
    if x < 0x8000_0000 { x as i32 } else { (x - 0x1_0000_0000) as i32 }
}
pub proof fn lemma_be32_dec32(s: Seq<u8>)
    requires s.len() == 4,
    ensures be32(dec32(s)) == s, be32(i32_bits(bits_i32(dec32(s)))) == s,
{
    let a = s[0] as int;
    let b = s[1] as int;
    let c = s[2] as int;
    let d = s[3] as int;
    let x = dec32(s) as int;
    assert(x == a * 0x1000000 + b * 0x10000 + c * 0x100 + d);
    // peel the bytes off one at a time with the fundamental div/mod lemma (no solver search)
    vstd::arithmetic::div_mod::lemma_fundamental_div_mod_converse(x, 0x100, a * 0x10000 + b * 0x100 + c, d);
    let x1 = x / 0x100;
    vstd::arithmetic::div_mod::lemma_fundamental_div_mod_converse(x1, 0x100, a * 0x100 + b, c);
    let x2 = x1 / 0x100;
    vstd::arithmetic::div_mod::lemma_fundamental_div_mod_converse(x2, 0x100, a, b);
    vstd::arithmetic::div_mod::lemma_fundamental_div_mod_converse(x, 0x10000, a * 0x100 + b, c * 0x100 + d);
    vstd::arithmetic::div_mod::lemma_fundamental_div_mod_converse(x, 0x1000000, a, b * 0x10000 + c * 0x100 + d);
    assert(x / 0x1000000 == a);
    assert((x / 0x10000) % 0x100 == b);
    assert((x / 0x100) % 0x100 == c);
    assert(x % 0x100 == d);
    assert(be32(dec32(s)) =~= s);
    assert(i32_bits(bits_i32(dec32(s))) == dec32(s));
}
pub proof fn lemma_be16_dec16(s: Seq<u8>)
    requires s.len() == 2,
    ensures be16(dec16(s)) == s,
{
    assert(be16(dec16(s)) =~= s);
}

/// R12: Ord::min / Ord::max on usize
pub fn vmin(a: usize, b: usize) -> (r: usize) ensures r == (if a <= b { a } else { b }) { if a <= b { a } else { b } }
pub fn vmax(a: usize, b: usize) -> (r: usize) ensures r == (if a >= b { a } else { b }) { if a >= b { a } else { b } }
