// ---- more assumed std specifications (see stdspecs.rs); kept apart to keep queries small ----
/// std: dedup* / retain remove elements; the result is no longer than the input and every element
/// of it was an element of the input (weak on purpose)
pub assume_specification<T, A: core::alloc::Allocator, F: FnMut(&mut T) -> K, K: PartialEq>[ Vec::<T, A>::dedup_by_key ](v: &mut Vec<T, A>, f: F)
    ensures final(v)@.len() <= old(v)@.len(),
        forall|i: int| 0 <= i < final(v)@.len() ==> old(v)@.contains(#[trigger] final(v)@[i]);
pub assume_specification<T, A: core::alloc::Allocator, F: FnMut(&T) -> bool>[ Vec::<T, A>::retain ](v: &mut Vec<T, A>, f: F)
    ensures final(v)@.len() <= old(v)@.len(),
        forall|i: int| 0 <= i < final(v)@.len() ==> old(v)@.contains(#[trigger] final(v)@[i]);
pub assume_specification<T, U, F: FnOnce(T) -> U>[ Option::<T>::map_or ](o: Option<T>, default: U, f: F) -> (r: U)
    requires o is Some ==> f.requires((o->0,)),
    ensures match o { Some(t) => f.ensures((t,), r), None => r == default };
pub assume_specification<T: Clone>[ <[T]>::to_vec ](s: &[T]) -> (r: Vec<T>)
    ensures r@.len() == s@.len(), forall|i: int| 0 <= i < s@.len() ==> vstd::pervasive::cloned(s@[i], #[trigger] r@[i]);
pub assume_specification<T, E>[ Result::<T, E>::unwrap_or ](r: Result<T, E>, d: T) -> (o: T)
    ensures o == (match r { Ok(t) => t, Err(_) => d });
