// ---- rpmvercmp: specification transcribed from rpm's lib/rpmvercmp.c, and its order laws (all proved) ----
use core::cmp::Ordering;
// ---- character classes (rpm: risalnum / risalpha / risdigit are ASCII-only) -------------------------
pub open spec fn is_digit(c: char) -> bool { '0' <= c <= '9' }
pub open spec fn is_alpha(c: char) -> bool { ('a' <= c <= 'z') || ('A' <= c <= 'Z') }
pub open spec fn is_alnum(c: char) -> bool { is_digit(c) || is_alpha(c) }
/// a character both comparison sides skip
pub open spec fn is_sep(c: char) -> bool { !is_alnum(c) && c != '~' && c != '^' }

// ---- rpmvercmp, transcribed from rpm's lib/rpmvercmp.c ---------------------------------------------
pub open spec fn skip_seps(s: Seq<char>) -> Seq<char>
    decreases s.len(),
{
    if s.len() > 0 && is_sep(s[0]) { skip_seps(s.subrange(1, s.len() as int)) } else { s }
}
/// length of the longest prefix of characters of one class
pub open spec fn run_len(s: Seq<char>, digits: bool) -> int
    decreases s.len(),
{
    if s.len() > 0 && (if digits { is_digit(s[0]) } else { is_alpha(s[0]) }) { 1 + run_len(s.subrange(1, s.len() as int), digits) } else { 0 }
}
pub open spec fn skip_zeros(s: Seq<char>) -> Seq<char>
    decreases s.len(),
{
    if s.len() > 0 && s[0] == '0' { skip_zeros(s.subrange(1, s.len() as int)) } else { s }
}
/// strcmp on the characters (UTF-8 preserves code point order, so this is also the byte order)
pub open spec fn lex_cmp(a: Seq<char>, b: Seq<char>) -> Ordering
    decreases a.len(),
{
    if a.len() == 0 && b.len() == 0 { Ordering::Equal }
    else if a.len() == 0 { Ordering::Less }
    else if b.len() == 0 { Ordering::Greater }
    else if (a[0] as u32) < (b[0] as u32) { Ordering::Less }
    else if (a[0] as u32) > (b[0] as u32) { Ordering::Greater }
    else { lex_cmp(a.subrange(1, a.len() as int), b.subrange(1, b.len() as int)) }
}
pub open spec fn int_cmp(a: int, b: int) -> Ordering { if a < b { Ordering::Less } else if a > b { Ordering::Greater } else { Ordering::Equal } }
/// one segment against the other: numeric segments without their leading zeros by length, then by text
pub open spec fn seg_cmp(a: Seq<char>, b: Seq<char>, digits: bool) -> Ordering {
    if digits {
        let a0 = skip_zeros(a); let b0 = skip_zeros(b);
        if a0.len() != b0.len() { int_cmp(a0.len() as int, b0.len() as int) } else { lex_cmp(a0, b0) }
    } else { lex_cmp(a, b) }
}
/// the loop of rpmvercmp from the current positions `one`, `two`
pub open spec fn vercmp_loop(one: Seq<char>, two: Seq<char>) -> Ordering
    decreases one.len() + two.len(),
{
    let o = skip_seps(one);
    let t = skip_seps(two);
    let o_tilde = o.len() > 0 && o[0] == '~';
    let t_tilde = t.len() > 0 && t[0] == '~';
    let o_caret = o.len() > 0 && o[0] == '^';
    let t_caret = t.len() > 0 && t[0] == '^';
    if o_tilde || t_tilde {
        // the tilde separator sorts before everything else
        if !o_tilde { Ordering::Greater } else if !t_tilde { Ordering::Less }
        else if o.len() <= one.len() && t.len() <= two.len() { vercmp_loop(o.subrange(1, o.len() as int), t.subrange(1, t.len() as int)) } else { Ordering::Equal }
    } else if o_caret || t_caret {
        // the caret: like the tilde, except that the string that ENDS here is the older one
        if o.len() == 0 { Ordering::Less } else if t.len() == 0 { Ordering::Greater }
        else if !o_caret { Ordering::Greater } else if !t_caret { Ordering::Less }
        else if o.len() <= one.len() && t.len() <= two.len() { vercmp_loop(o.subrange(1, o.len() as int), t.subrange(1, t.len() as int)) } else { Ordering::Equal }
    } else if o.len() == 0 || t.len() == 0 {
        // whichever version still has characters left over wins
        if o.len() == 0 && t.len() == 0 { Ordering::Equal } else if o.len() > 0 { Ordering::Greater } else { Ordering::Less }
    } else {
        let digits = is_digit(o[0]);
        let n1 = run_len(o, digits);
        let n2 = run_len(t, digits);
        if n1 == 0 { Ordering::Less }                                             // "this cannot happen" in rpm
        else if n2 == 0 { if digits { Ordering::Greater } else { Ordering::Less } }   // numeric segments are newer than alpha segments
        else {
            let c = seg_cmp(o.subrange(0, n1), t.subrange(0, n2), digits);
            if c != Ordering::Equal { c }
            else if 0 < n1 <= o.len() && 0 <= n2 <= t.len() && o.len() <= one.len() && t.len() <= two.len() { vercmp_loop(o.subrange(n1, o.len() as int), t.subrange(n2, t.len() as int)) }
            else { Ordering::Equal }
        }
    }
}
/// rpmvercmp(a, b)
pub open spec fn rpmvercmp(a: Seq<char>, b: Seq<char>) -> Ordering {
    if a == b { Ordering::Equal } else { vercmp_loop(a, b) }
}


pub proof fn lemma_skip_seps(s: Seq<char>)
    ensures
        skip_seps(s).len() <= s.len(),
        skip_seps(s).len() > 0 ==> !is_sep(skip_seps(s)[0]),
        skip_seps(skip_seps(s)) == skip_seps(s),
    decreases s.len(),
{
    if s.len() > 0 && is_sep(s[0]) { lemma_skip_seps(s.subrange(1, s.len() as int)); }
}
pub proof fn lemma_run_len(s: Seq<char>, digits: bool)
    ensures 0 <= run_len(s, digits) <= s.len(),
        forall|j: int| 0 <= j < run_len(s, digits) ==> (if digits { is_digit(#[trigger] s[j]) } else { is_alpha(s[j]) }),
        s.len() > 0 && (if digits { is_digit(s[0]) } else { is_alpha(s[0]) }) ==> run_len(s, digits) >= 1,
    decreases s.len(),
{
    if s.len() > 0 && (if digits { is_digit(s[0]) } else { is_alpha(s[0]) }) {
        let t = s.subrange(1, s.len() as int);
        lemma_run_len(t, digits);
        assert forall|j: int| 0 <= j < run_len(s, digits) implies (if digits { is_digit(#[trigger] s[j]) } else { is_alpha(s[j]) }) by {
            if j > 0 { assert(s[j] == t[j - 1]); }
        }
    }
}
/// skipping separators first does not change the comparison (rpmvercmp does it at the top of every round)
pub proof fn lemma_loop_skip(one: Seq<char>, two: Seq<char>)
    ensures vercmp_loop(one, two) == vercmp_loop(skip_seps(one), skip_seps(two)),
{
    lemma_skip_seps(one); lemma_skip_seps(two);
}

// ---- order laws of the specification itself ------------------------------------------------------
pub open spec fn rev(o: Ordering) -> Ordering {
    match o { Ordering::Less => Ordering::Greater, Ordering::Equal => Ordering::Equal, Ordering::Greater => Ordering::Less }
}
pub proof fn lemma_lex_rev(a: Seq<char>, b: Seq<char>)
    ensures lex_cmp(a, b) == rev(lex_cmp(b, a)),
    decreases a.len(),
{
    if a.len() > 0 && b.len() > 0 && a[0] as u32 == b[0] as u32 {
        lemma_lex_rev(a.subrange(1, a.len() as int), b.subrange(1, b.len() as int));
    }
}
pub proof fn lemma_seg_rev(a: Seq<char>, b: Seq<char>, digits: bool)
    ensures seg_cmp(a, b, digits) == rev(seg_cmp(b, a, digits)),
{
    lemma_lex_rev(a, b);
    lemma_lex_rev(skip_zeros(a), skip_zeros(b));
}
/// swapping the arguments reverses the result: rpmvercmp(a, b) is the mirror image of rpmvercmp(b, a)
pub proof fn lemma_loop_rev(one: Seq<char>, two: Seq<char>)
    ensures vercmp_loop(one, two) == rev(vercmp_loop(two, one)),
    decreases one.len() + two.len(),
{
    let o = skip_seps(one);
    let t = skip_seps(two);
    lemma_skip_seps(one); lemma_skip_seps(two);
    let o_tilde = o.len() > 0 && o[0] == '~';
    let t_tilde = t.len() > 0 && t[0] == '~';
    let o_caret = o.len() > 0 && o[0] == '^';
    let t_caret = t.len() > 0 && t[0] == '^';
    if o_tilde || t_tilde {
        if o_tilde && t_tilde { lemma_loop_rev(o.subrange(1, o.len() as int), t.subrange(1, t.len() as int)); }
    } else if o_caret || t_caret {
        if o_caret && t_caret { lemma_loop_rev(o.subrange(1, o.len() as int), t.subrange(1, t.len() as int)); }
    } else if o.len() == 0 || t.len() == 0 {
    } else {
        lemma_run_len(o, true); lemma_run_len(o, false); lemma_run_len(t, true); lemma_run_len(t, false);
        let d1 = is_digit(o[0]);
        let d2 = is_digit(t[0]);
        // both heads are alphanumeric here: a digit or a letter
        assert(is_alnum(o[0]) && is_alnum(t[0]));
        if d1 == d2 {
            let n1 = run_len(o, d1);
            let n2 = run_len(t, d1);
            lemma_seg_rev(o.subrange(0, n1), t.subrange(0, n2), d1);
            if seg_cmp(o.subrange(0, n1), t.subrange(0, n2), d1) == Ordering::Equal {
                lemma_loop_rev(o.subrange(n1, o.len() as int), t.subrange(n2, t.len() as int));
            }
        }
    }
}
pub open spec fn le(o: Ordering) -> bool { o != Ordering::Greater }
pub proof fn lemma_lex_eq(a: Seq<char>, b: Seq<char>)
    ensures lex_cmp(a, b) == Ordering::Equal <==> a == b,
    decreases a.len(),
{
    if a.len() > 0 && b.len() > 0 && a[0] as u32 == b[0] as u32 {
        let a1 = a.subrange(1, a.len() as int); let b1 = b.subrange(1, b.len() as int);
        lemma_lex_eq(a1, b1);
        if a1 == b1 { assert(a =~= b) by { assert forall|i: int| 0 <= i < a.len() implies a[i] == b[i] by { if i > 0 { assert(a1[i - 1] == a[i]); assert(b1[i - 1] == b[i]); } } } }
        if a == b { assert(a1 =~= b1); }
    } else if a.len() == 0 && b.len() == 0 {
        assert(a =~= b);
    }
}
/// lexicographic comparison is transitive (and compatible with equality, which is identity here)
pub proof fn lemma_lex_trans(a: Seq<char>, b: Seq<char>, c: Seq<char>)
    requires le(lex_cmp(a, b)), le(lex_cmp(b, c)),
    ensures le(lex_cmp(a, c)), lex_cmp(a, c) == Ordering::Equal ==> lex_cmp(a, b) == Ordering::Equal && lex_cmp(b, c) == Ordering::Equal,
    decreases a.len(),
{
    if a.len() > 0 && b.len() > 0 && c.len() > 0 && a[0] as u32 == b[0] as u32 && b[0] as u32 == c[0] as u32 {
        lemma_lex_trans(a.subrange(1, a.len() as int), b.subrange(1, b.len() as int), c.subrange(1, c.len() as int));
    }
}
/// one segment comparison (numeric or alphabetic) is a total preorder
pub proof fn lemma_seg_trans(a: Seq<char>, b: Seq<char>, c: Seq<char>, digits: bool)
    requires le(seg_cmp(a, b, digits)), le(seg_cmp(b, c, digits)),
    ensures le(seg_cmp(a, c, digits)), seg_cmp(a, c, digits) == Ordering::Equal ==> seg_cmp(a, b, digits) == Ordering::Equal && seg_cmp(b, c, digits) == Ordering::Equal,
{
    if digits {
        let a0 = skip_zeros(a); let b0 = skip_zeros(b); let c0 = skip_zeros(c);
        if a0.len() == b0.len() && b0.len() == c0.len() { lemma_lex_trans(a0, b0, c0); }
    } else {
        lemma_lex_trans(a, b, c);
    }
}
/// transitivity of the loop: if a <= b and b <= c then a <= c, and a ~ c only if a ~ b ~ c
pub proof fn lemma_loop_trans(a: Seq<char>, b: Seq<char>, c: Seq<char>)
    requires le(vercmp_loop(a, b)), le(vercmp_loop(b, c)),
    ensures le(vercmp_loop(a, c)), vercmp_loop(a, c) == Ordering::Equal ==> vercmp_loop(a, b) == Ordering::Equal && vercmp_loop(b, c) == Ordering::Equal,
    decreases a.len() + b.len() + c.len(),
{
    let x = skip_seps(a); let y = skip_seps(b); let z = skip_seps(c);
    lemma_skip_seps(a); lemma_skip_seps(b); lemma_skip_seps(c);
    let xt = x.len() > 0 && x[0] == '~'; let yt = y.len() > 0 && y[0] == '~'; let zt = z.len() > 0 && z[0] == '~';
    let xc = x.len() > 0 && x[0] == '^'; let yc = y.len() > 0 && y[0] == '^'; let zc = z.len() > 0 && z[0] == '^';
    if xt && yt && zt {
        lemma_loop_trans(x.subrange(1, x.len() as int), y.subrange(1, y.len() as int), z.subrange(1, z.len() as int));
    } else if xt || yt || zt {
        // a tilde is below everything else: the hypotheses force the tildes to the left
    } else if xc && yc && zc {
        lemma_loop_trans(x.subrange(1, x.len() as int), y.subrange(1, y.len() as int), z.subrange(1, z.len() as int));
    } else if xc || yc || zc || x.len() == 0 || y.len() == 0 || z.len() == 0 {
        // end of string < caret < any segment
    } else {
        lemma_run_len(x, true); lemma_run_len(x, false); lemma_run_len(y, true); lemma_run_len(y, false); lemma_run_len(z, true); lemma_run_len(z, false);
        assert(is_alnum(x[0]) && is_alnum(y[0]) && is_alnum(z[0]));
        let dx = is_digit(x[0]); let dy = is_digit(y[0]); let dz = is_digit(z[0]);
        if dx == dy && dy == dz {
            let n1 = run_len(x, dx); let n2 = run_len(y, dx); let n3 = run_len(z, dx);
            let s1 = x.subrange(0, n1); let s2 = y.subrange(0, n2); let s3 = z.subrange(0, n3);
            lemma_seg_trans(s1, s2, s3, dx);
            if seg_cmp(s1, s2, dx) == Ordering::Equal && seg_cmp(s2, s3, dx) == Ordering::Equal {
                lemma_loop_trans(x.subrange(n1, x.len() as int), y.subrange(n2, y.len() as int), z.subrange(n3, z.len() as int));
            }
        }
    }
}
pub proof fn lemma_lex_refl(a: Seq<char>)
    ensures lex_cmp(a, a) == Ordering::Equal,
    decreases a.len(),
{
    if a.len() > 0 { lemma_lex_refl(a.subrange(1, a.len() as int)); }
}
/// the loop gives Equal on identical inputs, so the `a == b` shortcut of rpmvercmp changes nothing
pub proof fn lemma_loop_refl(a: Seq<char>)
    ensures vercmp_loop(a, a) == Ordering::Equal,
    decreases a.len(),
{
    let x = skip_seps(a);
    lemma_skip_seps(a);
    if x.len() > 0 {
        if x[0] == '~' || x[0] == '^' {
            lemma_loop_refl(x.subrange(1, x.len() as int));
        } else {
            lemma_run_len(x, true); lemma_run_len(x, false);
            assert(is_alnum(x[0]));
            let d = is_digit(x[0]);
            let n = run_len(x, d);
            lemma_lex_refl(x.subrange(0, n)); lemma_lex_refl(skip_zeros(x.subrange(0, n)));
            lemma_loop_refl(x.subrange(n, x.len() as int));
        }
    }
}
/// rpmvercmp is a total preorder: the six laws, for all strings
pub proof fn lemma_rpmvercmp_total_preorder(a: Seq<char>, b: Seq<char>, c: Seq<char>)
    ensures
        rpmvercmp(a, a) == Ordering::Equal,
        rpmvercmp(a, b) == rev(rpmvercmp(b, a)),
        le(rpmvercmp(a, b)) && le(rpmvercmp(b, c)) ==> le(rpmvercmp(a, c)),
        rpmvercmp(a, b) == Ordering::Equal && rpmvercmp(b, c) == Ordering::Equal ==> rpmvercmp(a, c) == Ordering::Equal,
        rpmvercmp(a, b) == Ordering::Equal && le(rpmvercmp(b, c)) ==> rpmvercmp(a, c) == rpmvercmp(b, c),
        le(rpmvercmp(a, b)) && rpmvercmp(b, c) == Ordering::Equal ==> rpmvercmp(a, c) == rpmvercmp(a, b),
{
    lemma_loop_refl(a); lemma_loop_refl(b); lemma_loop_refl(c);
    assert(rpmvercmp(a, b) == vercmp_loop(a, b) && rpmvercmp(b, c) == vercmp_loop(b, c) && rpmvercmp(a, c) == vercmp_loop(a, c));
    assert(rpmvercmp(b, a) == vercmp_loop(b, a) && rpmvercmp(c, b) == vercmp_loop(c, b) && rpmvercmp(c, a) == vercmp_loop(c, a));
    lemma_loop_rev(a, b); lemma_loop_rev(b, c); lemma_loop_rev(a, c);
    if le(vercmp_loop(a, b)) && le(vercmp_loop(b, c)) { lemma_loop_trans(a, b, c); }
    if le(vercmp_loop(c, b)) && le(vercmp_loop(b, a)) { lemma_loop_trans(c, b, a); }
}
pub proof fn lemma_rpmvercmp_laws(a: Seq<char>, b: Seq<char>)
    ensures
        rpmvercmp(a, a) == Ordering::Equal,                    // reflexive
        rpmvercmp(a, b) == rev(rpmvercmp(b, a)),               // antisymmetric under swapping the arguments
{
    lemma_loop_rev(a, b);
}
