// ---- R-ALLOC (C04 "never allocates memory out of proportion to the input length") -------------
// In reader code every explicit allocation request (`vec![x; n]`, `Vec::with_capacity(n)`) is
// rewritten to these functions, whose PRECONDITION bounds the request by a constant (64 KiB).
// A request driven by an untrusted header field therefore fails an obligation; buffers may only
// grow with data actually read (read_to_end, push, extend).
pub fn vec_filled<T: Copy>(x: T, n: usize) -> (r: Vec<T>)
    requires n <= 0x10000,
    ensures r@.len() == n, forall|i: int| 0 <= i < n ==> r@[i] == x,
{
    let mut v: Vec<T> = Vec::new();
    let mut i: usize = 0;
    while i < n
        invariant i <= n, v@.len() == i, forall|j: int| 0 <= j < i ==> v@[j] == x,
        decreases n - i,
    {
        v.push(x);
        i += 1;
    }
    v
}
pub fn vec_with_capacity_bounded<T>(n: usize) -> (r: Vec<T>)
    requires n <= 0x10000,
    ensures r@.len() == 0,
{
    Vec::with_capacity(n)
}
/// `v.resize(new_len, x)`: growing a buffer by more than the constant bound is an allocation request
pub fn vec_resize_bounded<T: Copy>(v: &mut Vec<T>, new_len: usize, x: T)
    requires new_len <= old(v)@.len() + 0x10000,
    ensures final(v)@.len() == new_len,
        forall|i: int| 0 <= i < new_len ==> final(v)@[i] == (if i < old(v)@.len() { old(v)@[i] } else { x }),
{
    if new_len <= v.len() {
        v.truncate(new_len);
    } else {
        let ghost v0 = v@;
        while v.len() < new_len
            invariant v@.len() <= new_len, v0.len() <= v@.len(),
                forall|i: int| 0 <= i < v@.len() ==> v@[i] == (if i < v0.len() { v0[i] } else { x }),
            decreases new_len - v@.len(),
        {
            v.push(x);
        }
    }
}
