// ---- R-ALLOC (C04 "never allocates memory out of proportion to the input length") -------------
// In reader code every explicit allocation request (`vec![x; n]`, `Vec::with_capacity(n)`) is
// rewritten to these functions, whose PRECONDITION bounds the request by a constant (64 KiB).
// A request driven by an untrusted header field therefore fails an obligation; buffers may only
// grow with data actually read (read_to_end, push, extend).
pub fn vec_filled<T: Copy>(x: T, n: usize) -> (r: Vec<T>)
    requires n <= 0x10000,
    ensures r@.len() == n, forall|i: int| 0 <= i < n ==> r@[i] == x,
{
    let mut v: Vec<T> = Vec::new();
    let mut i: usize = 0;
    while i < n
        invariant i <= n, v@.len() == i, forall|j: int| 0 <= j < i ==> v@[j] == x,
        decreases n - i,
    {
        v.push(x);
        i += 1;
    }
    v
}
pub fn vec_with_capacity_bounded<T>(n: usize) -> (r: Vec<T>)
    requires n <= 0x10000,
    ensures r@.len() == 0,
{
    Vec::with_capacity(n)
}
