// ---- spec vocabulary: the canonical serialisation (written from the format, not the code) ----
// be16/be32/be64 are the big-endian byte strings of a word.  They are defined arithmetically so
// that nothing depends on bit-vector reasoning; the Kani leaf K-BE-LINK checks the same
// definitions (transliterated to executable Rust) against `to_be_bytes` for every value.
pub open spec fn be16(x: u16) -> Seq<u8> {
    seq![(x / 0x100) as u8, (x % 0x100) as u8]
}
pub open spec fn be32(x: u32) -> Seq<u8> {
    seq![(x / 0x1000000) as u8, ((x / 0x10000) % 0x100) as u8, ((x / 0x100) % 0x100) as u8, (x % 0x100) as u8]
}
pub open spec fn be64(x: u64) -> Seq<u8> {
    be32((x / 0x1_0000_0000) as u32) + be32((x % 0x1_0000_0000) as u32)
}
pub open spec fn zeros(n: int) -> Seq<u8> {
    Seq::new(n as nat, |i: int| 0u8)
}
// i32 offsets are written as their two's-complement bit pattern
pub open spec fn i32_bits(x: i32) -> u32 {
    if x >= 0 { x as u32 } else { (x + 0x1_0000_0000) as u32 }
}
pub open spec fn ser_intro(magic: Seq<u8>, version: u8, n: u32, d: u32) -> Seq<u8> {
    magic + seq![version] + zeros(4) + be32(n) + be32(d)
}
pub open spec fn ser_entry(tag: u32, ty: u32, off: i32, cnt: u32) -> Seq<u8> {
    be32(tag) + be32(ty) + be32(i32_bits(off)) + be32(cnt)
}
pub open spec fn sigpad(d: int) -> int {
    (8 - d % 8) % 8
}
