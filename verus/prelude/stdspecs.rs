// ---- assumed specifications of std functions that edits of the extracted bodies may introduce ----
// Deliberately weak (what the std documentation guarantees and nothing more): they exist so that a
// body using them is ACCEPTED and judged against its contract instead of being undecidable.
pub assume_specification<T, K: Ord, F: FnMut(&T) -> K>[ <[T]>::sort_by_key ](s: &mut [T], f: F)
    ensures final(s)@.len() == old(s)@.len(), final(s)@.to_multiset() == old(s)@.to_multiset();
pub assume_specification<T, K: Ord, F: FnMut(&T) -> K>[ <[T]>::sort_unstable_by_key ](s: &mut [T], f: F)
    ensures final(s)@.len() == old(s)@.len(), final(s)@.to_multiset() == old(s)@.to_multiset();
/// std: "sorts the slice with a comparator function, preserving initial order of equal elements":
/// the result is a permutation in which no earlier element compares Greater than a later one.
pub assume_specification<T, F: FnMut(&T, &T) -> core::cmp::Ordering>[ <[T]>::sort_by ](s: &mut [T], f: F)
    ensures final(s)@.len() == old(s)@.len(), final(s)@.to_multiset() == old(s)@.to_multiset(),
        forall|i: int, j: int| #![trigger final(s)@[i], final(s)@[j]] 0 <= i < j < final(s)@.len() ==>
            exists|o: core::cmp::Ordering| #[trigger] call_ensures(f, (&final(s)@[i], &final(s)@[j]), o) && !(o is Greater);
pub assume_specification<T: Ord>[ <[T]>::sort ](s: &mut [T])
    ensures final(s)@.len() == old(s)@.len(), final(s)@.to_multiset() == old(s)@.to_multiset();
pub assume_specification<T>[ <[T]>::reverse ](s: &mut [T])
    ensures final(s)@ == old(s)@.reverse();
