// ---- R5: abstraction of `trait Tag` (constants.rs) ------------------------------------------
// The real trait is `num::FromPrimitive + PartialEq + Display + Debug + Copy` with
// `tag_type_name()` and `to_u32()`.  Header code uses a tag only through `to_u32()`; the two
// implementors are field-less `#[repr(u32)]` enums whose `to_u32` is `*self as u32`.
pub trait Tag: Copy {
    spec fn spec_to_u32(&self) -> u32;
    fn to_u32(&self) -> (r: u32)
        ensures r == self.spec_to_u32();
}
