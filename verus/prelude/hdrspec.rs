// ---- spec vocabulary over the extracted header types ---------------------------------------
// RPM type codes (lib/header.h rpmTagType): NULL 0, CHAR 1, INT8 2, INT16 3, INT32 4, INT64 5,
// STRING 6, BIN 7, STRING_ARRAY 8, I18NSTRING 9.
pub open spec fn ty_code(d: IndexData) -> u32 {
    match d {
        IndexData::Null => 0,
        IndexData::Char(_) => 1,
        IndexData::Int8(_) => 2,
        IndexData::Int16(_) => 3,
        IndexData::Int32(_) => 4,
        IndexData::Int64(_) => 5,
        IndexData::StringTag(_) => 6,
        IndexData::Bin(_) => 7,
        IndexData::StringArray(_) => 8,
        IndexData::I18NString(_) => 9,
    }
}
/// the item count an entry's data amounts to (rpm: 0 for NULL, 1 for STRING, the number of elements otherwise;
/// as a 32-bit value like the count field)
pub open spec fn data_count(d: IndexData) -> u32 {
    match d {
        IndexData::Null => 0,
        IndexData::StringTag(_) => 1,
        IndexData::Char(v) => v@.len() as u32,
        IndexData::Int8(v) => v@.len() as u32,
        IndexData::Int16(v) => v@.len() as u32,
        IndexData::Int32(v) => v@.len() as u32,
        IndexData::Int64(v) => v@.len() as u32,
        IndexData::Bin(v) => v@.len() as u32,
        IndexData::StringArray(v) => v@.len() as u32,
        IndexData::I18NString(v) => v@.len() as u32,
    }
}
pub open spec fn ser_entry_of<T: Tag>(e: IndexEntry<T>) -> Seq<u8> {
    ser_entry(e.tag, ty_code(e.data), e.offset, e.num_items)
}
pub open spec fn ser_entries<T: Tag>(es: Seq<IndexEntry<T>>) -> Seq<u8>
    decreases es.len(),
{
    if es.len() == 0 {
        Seq::<u8>::empty()
    } else {
        ser_entries(es.drop_last()) + ser_entry_of(es.last())
    }
}
pub open spec fn ser_ih(ih: IndexHeader) -> Seq<u8> {
    ser_intro(ih.magic@, ih.version, ih.num_entries, ih.data_section_size)
}
pub open spec fn ser_header<T: Tag>(h: Header<T>) -> Seq<u8> {
    ser_ih(h.index_header) + ser_entries(h.index_entries@) + h.store@
}
/// The representation invariant every parsed / built header satisfies.
pub open spec fn wf<T: Tag>(h: Header<T>) -> bool {
    &&& h.index_entries@.len() == h.index_header.num_entries
    &&& h.store@.len() == h.index_header.data_section_size
    &&& h.index_header.magic@ == HEADER_MAGIC@
    &&& h.index_header.version == 1
}
/// On-disk length of a header as a mathematical integer.
pub open spec fn hdr_len<T: Tag>(h: Header<T>) -> int {
    16 + 16 * (h.index_header.num_entries as int) + (h.index_header.data_section_size as int)
}
pub proof fn lemma_be32_len(x: u32)
    ensures be32(x).len() == 4,
{
}
pub proof fn lemma_ser_entry_len(tag: u32, ty: u32, off: i32, cnt: u32)
    ensures ser_entry(tag, ty, off, cnt).len() == 16,
{
}
pub proof fn lemma_ser_entries_len<T: Tag>(es: Seq<IndexEntry<T>>)
    ensures ser_entries(es).len() == 16 * es.len(),
    decreases es.len(),
{
    if es.len() > 0 {
        lemma_ser_entries_len(es.drop_last());
        lemma_ser_entry_len(es.last().tag, ty_code(es.last().data), es.last().offset, es.last().num_items);
    }
}
pub proof fn lemma_ser_header_len<T: Tag>(h: Header<T>)
    requires wf(h),
    ensures ser_header(h).len() == hdr_len(h),
{
    lemma_ser_entries_len(h.index_entries@);
    assert(ser_ih(h.index_header).len() == 16);
}
