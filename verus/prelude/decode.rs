// ---- independent decoding of store bytes (C05 oracle), written from the rpm header format -----
pub open spec fn first_nul(s: Seq<u8>) -> int
    decreases s.len(),
{
    if s.len() == 0 { 0 } else if s[0] == 0 { 0 } else { 1 + first_nul(s.drop_first()) }
}
/// bytes of the NUL-terminated string at the start of s (without the terminator)
pub open spec fn cstr(s: Seq<u8>) -> Seq<u8> { s.subrange(0, first_nul(s)) }
/// s after its first NUL-terminated string and the terminator
pub open spec fn after_cstr(s: Seq<u8>) -> Seq<u8> {
    if first_nul(s) < s.len() { s.subrange(first_nul(s) + 1, s.len() as int) } else { Seq::<u8>::empty() }
}
pub open spec fn has_cstr(s: Seq<u8>) -> bool { first_nul(s) < s.len() }
pub proof fn lemma_first_nul(s: Seq<u8>)
    ensures 0 <= first_nul(s) <= s.len(),
        first_nul(s) < s.len() ==> s[first_nul(s)] == 0,
        forall|i: int| 0 <= i < first_nul(s) ==> s[i] != 0,
    decreases s.len(),
{
    if s.len() > 0 && s[0] != 0 {
        lemma_first_nul(s.drop_first());
        assert forall|i: int| 0 <= i < first_nul(s) implies s[i] != 0 by {
            if i > 0 { assert(s[i] == s.drop_first()[i - 1]); }
        }
    }
}
/// A-LOSSY: String::from_utf8_lossy is a total function of the bytes (uninterpreted)
pub uninterp spec fn lossy_spec(s: Seq<u8>) -> Seq<char>;
/// the k-th of the NUL-terminated strings laid out back to back in s exists
pub open spec fn strs_ok(s: Seq<u8>, k: int) -> bool
    decreases k,
{
    if k <= 0 { true } else { has_cstr(s) && strs_ok(after_cstr(s), k - 1) }
}
/// the k-th (0-based) NUL-terminated string laid out back to back in s
pub open spec fn str_at(s: Seq<u8>, k: int) -> Seq<u8>
    decreases k,
{
    if k <= 0 { cstr(s) } else { str_at(after_cstr(s), k - 1) }
}
pub open spec fn after_strs(s: Seq<u8>, k: int) -> Seq<u8>
    decreases k,
{
    if k <= 0 { s } else { after_strs(after_cstr(s), k - 1) }
}
pub proof fn lemma_strs_step(s: Seq<u8>, k: int)
    requires k >= 0,
    ensures
        strs_ok(s, k + 1) == (strs_ok(s, k) && has_cstr(after_strs(s, k))),
        after_strs(s, k + 1) == after_cstr(after_strs(s, k)),
        str_at(s, k) == cstr(after_strs(s, k)),
        after_strs(s, k).len() <= s.len(),
    decreases k,
{
    lemma_first_nul(s);
    let a = after_cstr(s);
    assert(strs_ok(s, k + 1) == (has_cstr(s) && strs_ok(a, k)));
    assert(after_strs(s, k + 1) == after_strs(a, k));
    assert(a.len() <= s.len());
    if k > 0 {
        lemma_strs_step(a, k - 1);
        assert(strs_ok(s, k) == (has_cstr(s) && strs_ok(a, k - 1)));
        assert(after_strs(s, k) == after_strs(a, k - 1));
        assert(str_at(s, k) == str_at(a, k - 1));
    } else {
        assert(after_strs(a, 0) == a);
    }
}
pub open spec fn dec_u16s(s: Seq<u8>, n: int) -> Seq<u16> {
    Seq::new(n as nat, |i: int| dec16(s.subrange(2 * i, 2 * i + 2)))
}
pub open spec fn dec_u32s(s: Seq<u8>, n: int) -> Seq<u32> {
    Seq::new(n as nat, |i: int| dec32(s.subrange(4 * i, 4 * i + 4)))
}
pub open spec fn dec64(s: Seq<u8>) -> u64 {
    (dec32(s.subrange(0, 4)) as u64 * 0x1_0000_0000 + dec32(s.subrange(4, 8)) as u64) as u64
}
pub open spec fn dec_u64s(s: Seq<u8>, n: int) -> Seq<u64> {
    Seq::new(n as nat, |i: int| dec64(s.subrange(8 * i, 8 * i + 8)))
}
pub open spec fn data_empty(d: IndexData) -> bool {
    match d {
        IndexData::Null => true,
        IndexData::Char(v) => v@.len() == 0,
        IndexData::Int8(v) => v@.len() == 0,
        IndexData::Int16(v) => v@.len() == 0,
        IndexData::Int32(v) => v@.len() == 0,
        IndexData::Int64(v) => v@.len() == 0,
        IndexData::StringTag(s) => s@.len() == 0,
        IndexData::Bin(v) => v@.len() == 0,
        IndexData::StringArray(v) => v@.len() == 0,
        IndexData::I18NString(v) => v@.len() == 0,
    }
}
pub open spec fn strs_decoded(v: Seq<String>, t: Seq<u8>, n: int) -> bool {
    &&& v.len() == n
    &&& strs_ok(t, n)
    &&& forall|k: int| 0 <= k < n ==> (#[trigger] v[k])@ == lossy_spec(str_at(t, k))
}
/// The value an accessor must see for an entry (tag, type, offset, count) over `store`:
/// what an independent decoding of the header bytes gives (C05).
pub open spec fn decoded<T: Tag>(e: IndexEntry<T>, store: Seq<u8>) -> bool {
    let off = e.offset as int;
    let n = e.num_items as int;
    &&& 0 <= off <= store.len()
    &&& {
        let t = store.subrange(off, store.len() as int);
        match e.data {
            IndexData::Null => true,
            IndexData::Char(v) => n <= t.len() && v@ == t.subrange(0, n),
            IndexData::Int8(v) => n <= t.len() && v@ == t.subrange(0, n),
            IndexData::Bin(v) => n <= t.len() && v@ == t.subrange(0, n),
            IndexData::Int16(v) => 2 * n <= t.len() && v@ == dec_u16s(t, n),
            IndexData::Int32(v) => 4 * n <= t.len() && v@ == dec_u32s(t, n),
            IndexData::Int64(v) => 8 * n <= t.len() && v@ == dec_u64s(t, n),
            IndexData::StringTag(s) => s@ == lossy_spec(cstr(t)),
            IndexData::StringArray(v) => strs_decoded(v@, t, n),
            IndexData::I18NString(v) => strs_decoded(v@, t, n),
        }
    }
}
pub open spec fn same_index<T: Tag>(a: IndexEntry<T>, b: IndexEntry<T>) -> bool {
    &&& a.tag == b.tag
    &&& ty_code(a.data) == ty_code(b.data)
    &&& a.offset == b.offset
    &&& a.num_items == b.num_items
}

// ---- leaf contracts of the decode helpers, each proved by a Kani harness on the real function --
/// R17: `&s[a..]` (panics iff a > len: the precondition IS the no-panic obligation)
#[verifier::external_body]
pub fn slice_from(s: &[u8], a: usize) -> (r: &[u8])
    requires a <= s@.len(),
    ensures r@ == s@.subrange(a as int, s@.len() as int),
{
    &s[a..]
}
/// R19: `complete::take_till(|item| item == 0)(s)` - K:k_take_till_nul on real nom
#[verifier::external_body]
pub fn take_till_nul(s: &[u8]) -> (r: Result<(&[u8], &[u8]), Error>)
    ensures r is Ok,
        r->Ok_0.1@ == cstr(s@),
        r->Ok_0.0@ == s@.subrange(first_nul(s@), s@.len() as int),
{
    unimplemented!()
}
/// R20: `String::from_utf8_lossy(raw).to_string()` / `.as_ref()` (A-LOSSY)
#[verifier::external_body]
pub fn lossy(s: &[u8]) -> (r: String)
    ensures r@ == lossy_spec(s@),
{
    String::from_utf8_lossy(s).to_string()
}
/// K:k_parse_binary_entry (real function; all u32 counts, slice length <= 16)
#[verifier::external_body]
pub fn parse_binary_entry(input: &[u8], num_items: u32, items: &mut Vec<u8>, bin_type: &str) -> (r: Result<(), Error>)
    ensures
        r is Ok <==> num_items <= input@.len(),
        r is Ok ==> final(items)@ == old(items)@ + input@.subrange(0, num_items as int),
{
    unimplemented!()
}
/// R18: `parse_entry_data_number(input, n, items, be_u16)` etc. - K:k_dec_u16/u32/u64 on the real
/// generic function with real nom parsers (count <= 3, slice length <= 16: bounded)
#[verifier::external_body]
pub fn parse_entry_data_number_u16<'a>(input: &'a [u8], num_items: u32, items: &mut Vec<u16>) -> (r: Result<(&'a [u8], ()), Error>)
    ensures
        r is Ok <==> 2 * num_items <= input@.len(),
        r is Ok ==> final(items)@ == old(items)@ + dec_u16s(input@, num_items as int),
{
    unimplemented!()
}
#[verifier::external_body]
pub fn parse_entry_data_number_u32<'a>(input: &'a [u8], num_items: u32, items: &mut Vec<u32>) -> (r: Result<(&'a [u8], ()), Error>)
    ensures
        r is Ok <==> 4 * num_items <= input@.len(),
        r is Ok ==> final(items)@ == old(items)@ + dec_u32s(input@, num_items as int),
{
    unimplemented!()
}
#[verifier::external_body]
pub fn parse_entry_data_number_u64<'a>(input: &'a [u8], num_items: u32, items: &mut Vec<u64>) -> (r: Result<(&'a [u8], ()), Error>)
    ensures
        r is Ok <==> 8 * num_items <= input@.len(),
        r is Ok ==> final(items)@ == old(items)@ + dec_u64s(input@, num_items as int),
{
    unimplemented!()
}
