// ---- trusted environment model: errors and std::io (DESIGN 2.3) ------------------------------
// R4: `Error` stands for crate::errors::Error.  Only the variants that extracted bodies
// construct or match on are named; every conversion (`From<io::Error>`, nom errors, ...) that
// `?` would perform lands in a variant of this enum and has no effect on control flow.
pub enum Error {
    Io,
    Nom,
    NoSignatureFound,
    DigestMismatchError,
    UnsupportedDigestAlgorithm(DigestAlgorithm),
    TagNotFound,
    UnexpectedTagDataType,
    InvalidMagic,
    UnsupportedHeaderVersion(u8),
    InvalidTagDataType,
    UnsupportedCompressorType,
    UnknownCompressorType,
    SignatureVerification,
    UnexpectedIssuerCount(u32),
    Other,
}

#[verifier::external]
impl std::fmt::Debug for Error {
    fn fmt(&self, f: &mut std::fmt::Formatter<'_>) -> std::fmt::Result { Ok(()) }
}

/// a is a prefix of b (index-wise, automation friendly)
pub open spec fn pre(a: Seq<u8>, b: Seq<u8>) -> bool {
    a.len() <= b.len() && forall|i: int| 0 <= i < a.len() ==> a[i] == b[i]
}

/// R2: the documented contract of `std::io::Write`, for ANY sink (this is the quantifier of C14):
/// `write` accepts some n <= len bytes of the buffer or fails having accepted none;
/// `write_all` either appends the whole buffer or fails having appended a prefix of it
/// (it loops over `write`, retrying on Interrupted); `flush` emits nothing new.
/// `sunk()` is the ghost byte string the sink has accepted so far.
/// `infallible()` marks sinks whose `write_all` cannot fail (std: `impl Write for Vec<u8>`).
pub trait VWrite {
    spec fn sunk(&self) -> Seq<u8>;
    spec fn infallible(&self) -> bool;
    fn write(&mut self, buf: &[u8]) -> (r: Result<usize, Error>)
        ensures match r {
            Ok(n) => n <= buf@.len() && final(self).sunk() == old(self).sunk() + buf@.subrange(0, n as int),
            Err(_) => final(self).sunk() == old(self).sunk(),
        },
        final(self).infallible() == old(self).infallible();
    fn write_all(&mut self, buf: &[u8]) -> (r: Result<(), Error>)
        ensures match r {
            Ok(()) => final(self).sunk() == old(self).sunk() + buf@,
            Err(_) => pre(old(self).sunk(), final(self).sunk()) && pre(final(self).sunk(), old(self).sunk() + buf@),
        },
        old(self).infallible() ==> r is Ok,
        final(self).infallible() == old(self).infallible();
    fn flush(&mut self) -> (r: Result<(), Error>)
        ensures final(self).sunk() == old(self).sunk(), final(self).infallible() == old(self).infallible();
}
/// std: `impl Write for Vec<u8>` appends and never fails.
impl VWrite for Vec<u8> {
    open spec fn sunk(&self) -> Seq<u8> { self@ }
    open spec fn infallible(&self) -> bool { true }
    #[verifier::external_body]
    fn write(&mut self, buf: &[u8]) -> (r: Result<usize, Error>) { unimplemented!() }
    #[verifier::external_body]
    fn write_all(&mut self, buf: &[u8]) -> (r: Result<(), Error>) { unimplemented!() }
    #[verifier::external_body]
    fn flush(&mut self) -> (r: Result<(), Error>) { unimplemented!() }
}

/// R14: `x.to_be_bytes()` is rewritten to `x.to_be_bytes_v()`; Verus cannot name the std
/// signature (`[u8; size_of::<Self>()]`).  The contract `r@ == be*(x)` is checked against the
/// real `to_be_bytes` for every value by the Kani leaf K-BE-LINK.
pub trait BeBytes<const N: usize> {
    spec fn be(&self) -> Seq<u8>;
    fn to_be_bytes_v(&self) -> (r: [u8; N])
        ensures r@ == self.be();
}
impl BeBytes<1> for u8 {
    open spec fn be(&self) -> Seq<u8> { seq![*self] }
    #[verifier::external_body]
    fn to_be_bytes_v(&self) -> (r: [u8; 1]) { self.to_be_bytes() }
}
impl BeBytes<2> for u16 {
    open spec fn be(&self) -> Seq<u8> { be16(*self) }
    #[verifier::external_body]
    fn to_be_bytes_v(&self) -> (r: [u8; 2]) { self.to_be_bytes() }
}
impl BeBytes<4> for u32 {
    open spec fn be(&self) -> Seq<u8> { be32(*self) }
    #[verifier::external_body]
    fn to_be_bytes_v(&self) -> (r: [u8; 4]) { self.to_be_bytes() }
}
impl BeBytes<4> for i32 {
    open spec fn be(&self) -> Seq<u8> { be32(i32_bits(*self)) }
    #[verifier::external_body]
    fn to_be_bytes_v(&self) -> (r: [u8; 4]) { self.to_be_bytes() }
}
impl BeBytes<8> for u64 {
    open spec fn be(&self) -> Seq<u8> { be64(*self) }
    #[verifier::external_body]
    fn to_be_bytes_v(&self) -> (r: [u8; 8]) { self.to_be_bytes() }
}
