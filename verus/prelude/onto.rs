// ---- canonical serialisation in accumulator ("onto") style ------------------------------------
// ser_X_onto(p, x) is p followed by the canonical bytes of x; written left-nested so that a
// sequence of write_all calls matches it without associativity reasoning.  The definitions are
// opaque: each writer reveals only its own level, callers use the *_grow lemmas (the result
// extends p) - this keeps every query small.  lemma_*_onto relate the onto form to the plain
// ser_X of serspec.rs / hdrspec.rs.
#[verifier::opaque]
pub open spec fn ser_ih_onto(p: Seq<u8>, h: IndexHeader) -> Seq<u8> {
    p + h.magic@ + seq![h.version] + zeros(4) + be32(h.num_entries) + be32(h.data_section_size)
}
#[verifier::opaque]
pub open spec fn ser_entry_onto<T: Tag>(p: Seq<u8>, e: IndexEntry<T>) -> Seq<u8> {
    p + be32(e.tag) + be32(ty_code(e.data)) + be32(i32_bits(e.offset)) + be32(e.num_items)
}
pub open spec fn ser_entries_onto<T: Tag>(p: Seq<u8>, es: Seq<IndexEntry<T>>) -> Seq<u8>
    decreases es.len(),
{
    if es.len() == 0 { p } else { ser_entry_onto(ser_entries_onto(p, es.drop_last()), es.last()) }
}
#[verifier::opaque]
pub open spec fn ser_header_onto<T: Tag>(p: Seq<u8>, h: Header<T>) -> Seq<u8> {
    ser_entries_onto(ser_ih_onto(p, h.index_header), h.index_entries@) + h.store@
}
#[verifier::opaque]
pub open spec fn ser_sig_onto<T: Tag>(p: Seq<u8>, h: Header<T>) -> Seq<u8> {
    let q = ser_header_onto(p, h);
    let pad = sigpad(h.index_header.data_section_size as int);
    if pad > 0 { q + zeros(pad) } else { q }
}
pub proof fn lemma_ih_onto_grow(p: Seq<u8>, h: IndexHeader)
    ensures pre(p, ser_ih_onto(p, h)), ser_ih_onto(p, h).len() == p.len() + 16,
        ser_ih_onto(p, h) == p + ser_ih(h),
{
    reveal(ser_ih_onto);
    assert(ser_ih_onto(p, h) =~= p + ser_ih(h));
}
pub proof fn lemma_entry_onto_grow<T: Tag>(p: Seq<u8>, e: IndexEntry<T>)
    ensures pre(p, ser_entry_onto(p, e)), ser_entry_onto(p, e).len() == p.len() + 16,
        ser_entry_onto(p, e) == p + ser_entry_of(e),
{
    reveal(ser_entry_onto);
    assert(ser_entry_onto(p, e) =~= p + ser_entry_of(e));
}
pub proof fn lemma_entries_onto_len<T: Tag>(p: Seq<u8>, es: Seq<IndexEntry<T>>)
    ensures ser_entries_onto(p, es).len() == p.len() + 16 * es.len(), pre(p, ser_entries_onto(p, es)),
    decreases es.len(),
{
    if es.len() > 0 {
        lemma_entries_onto_len(p, es.drop_last());
        lemma_entry_onto_grow(ser_entries_onto(p, es.drop_last()), es.last());
    }
}
/// the first i entries are a prefix of all entries
pub proof fn lemma_entries_onto_grow<T: Tag>(p: Seq<u8>, es: Seq<IndexEntry<T>>, i: int)
    requires 0 <= i <= es.len(),
    ensures
        pre(p, ser_entries_onto(p, es.take(i))),
        pre(ser_entries_onto(p, es.take(i)), ser_entries_onto(p, es)),
    decreases es.len() - i,
{
    lemma_entries_onto_len(p, es.take(i));
    if i == es.len() {
        assert(es.take(i) =~= es);
    } else {
        lemma_entries_onto_grow(p, es, i + 1);
        assert(es.take(i + 1).drop_last() =~= es.take(i));
        assert(es.take(i + 1).last() == es[i]);
        lemma_entry_onto_grow(ser_entries_onto(p, es.take(i)), es[i]);
    }
}
pub proof fn lemma_entries_onto<T: Tag>(p: Seq<u8>, es: Seq<IndexEntry<T>>)
    ensures ser_entries_onto(p, es) == p + ser_entries(es),
    decreases es.len(),
{
    if es.len() == 0 {
        assert(p + ser_entries(es) =~= p);
    } else {
        lemma_entries_onto(p, es.drop_last());
        lemma_entry_onto_grow(ser_entries_onto(p, es.drop_last()), es.last());
        assert(ser_entries_onto(p, es) =~= p + ser_entries(es));
    }
}
pub proof fn lemma_header_onto<T: Tag>(p: Seq<u8>, h: Header<T>)
    ensures ser_header_onto(p, h) == p + ser_header(h),
{
    reveal(ser_header_onto);
    lemma_ih_onto_grow(p, h.index_header);
    lemma_entries_onto(ser_ih_onto(p, h.index_header), h.index_entries@);
    assert(ser_header_onto(p, h) =~= p + ser_header(h));
}
pub proof fn lemma_header_onto_grow<T: Tag>(p: Seq<u8>, h: Header<T>)
    ensures pre(p, ser_header_onto(p, h)), pre(p, ser_sig_onto(p, h)),
        pre(ser_header_onto(p, h), ser_sig_onto(p, h)),
        pre(ser_ih_onto(p, h.index_header), ser_header_onto(p, h)),
{
    reveal(ser_header_onto);
    reveal(ser_sig_onto);
    lemma_ih_onto_grow(p, h.index_header);
    lemma_entries_onto_len(ser_ih_onto(p, h.index_header), h.index_entries@);
}
