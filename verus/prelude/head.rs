// ---- unit head (hand-written, trusted: imports only) ---------------------------------------
#![feature(allocator_api)]
#![allow(unused_imports, dead_code, unused_variables, unused_mut, non_camel_case_types, unused_parens, unused_braces, unused_assignments)]
use vstd::prelude::*;
use std::marker::PhantomData;
fn main() {}
verus! {
