// ---- A-HASH: hash functions and hex are uninterpreted; RustCrypto / hex compute them -----------
pub uninterp spec fn md5_spec(d: Seq<u8>) -> Seq<u8>;
pub uninterp spec fn sha1_spec(d: Seq<u8>) -> Seq<u8>;
pub uninterp spec fn sha256_spec(d: Seq<u8>) -> Seq<u8>;
pub uninterp spec fn hex_spec(d: Seq<u8>) -> Seq<char>;
/// hex is injective (lower-case, two digits per byte)
pub broadcast axiom fn axiom_hex_injective(a: Seq<u8>, b: Seq<u8>)
    ensures #![trigger hex_spec(a), hex_spec(b)] hex_spec(a) == hex_spec(b) ==> a == b;

/// output of a finished hash (GenericArray in RustCrypto)
pub struct DigestOut { pub bytes: Vec<u8> }
impl DigestOut {
    #[verifier::external_body]
    pub fn to_vec(&self) -> (r: Vec<u8>) ensures r@ == self.bytes@ { unimplemented!() }
}
/// anything that can be fed to `update` / hashed: &[u8], &Vec<u8>
pub trait AsBytes { spec fn as_bytes_spec(&self) -> Seq<u8>; }
impl AsBytes for &[u8] { open spec fn as_bytes_spec(&self) -> Seq<u8> { self@ } }
impl AsBytes for &Vec<u8> { open spec fn as_bytes_spec(&self) -> Seq<u8> { self@ } }
impl AsBytes for DigestOut { open spec fn as_bytes_spec(&self) -> Seq<u8> { self.bytes@ } }

pub mod hex {
    use super::*;
    #[verifier::external_body]
    pub fn encode<A: AsBytes>(d: A) -> (r: String) ensures r@ == hex_spec(d.as_bytes_spec()) { unimplemented!() }
}
/// trait Digest of the `digest` crate (R12: `Digest::update/finalize/digest`, `Default::default`)
pub mod sha2 {
    use super::*;
    pub struct Sha256 { pub absorbed: Ghost<Seq<u8>> }
    impl Sha256 {
        #[verifier::external_body]
        pub fn default() -> (r: Sha256) ensures r.absorbed@ == Seq::<u8>::empty() { unimplemented!() }
        #[verifier::external_body]
        pub fn new() -> (r: Sha256) ensures r.absorbed@ == Seq::<u8>::empty() { unimplemented!() }
        #[verifier::external_body]
        pub fn digest<A: AsBytes>(d: A) -> (r: DigestOut) ensures r.bytes@ == sha256_spec(d.as_bytes_spec()) { unimplemented!() }
        #[verifier::external_body]
        pub fn update<A: AsBytes>(&mut self, d: A) ensures final(self).absorbed@ == old(self).absorbed@ + d.as_bytes_spec() { unimplemented!() }
        #[verifier::external_body]
        pub fn finalize(self) -> (r: DigestOut) ensures r.bytes@ == sha256_spec(self.absorbed@) { unimplemented!() }
    }
}
pub mod sha1 {
    use super::*;
    pub struct Sha1 { pub absorbed: Ghost<Seq<u8>> }
    impl Sha1 {
        #[verifier::external_body]
        pub fn digest<A: AsBytes>(d: A) -> (r: DigestOut) ensures r.bytes@ == sha1_spec(d.as_bytes_spec()) { unimplemented!() }
    }
}
pub mod md5 {
    use super::*;
    pub struct Md5 { pub absorbed: Ghost<Seq<u8>> }
    impl Md5 {
        #[verifier::external_body]
        pub fn default() -> (r: Md5) ensures r.absorbed@ == Seq::<u8>::empty() { unimplemented!() }
        #[verifier::external_body]
        pub fn update<A: AsBytes>(&mut self, d: A) ensures final(self).absorbed@ == old(self).absorbed@ + d.as_bytes_spec() { unimplemented!() }
        #[verifier::external_body]
        pub fn finalize(self) -> (r: DigestOut) ensures r.bytes@ == md5_spec(self.absorbed@) { unimplemented!() }
    }
}
/// R11: `a != b` / `a == b` between &[u8], Vec<u8>, &str, String is content (in)equality (std
/// PartialEq).  One generic helper, dispatched on the operand types, so the rewrite does not
/// depend on the names of the operands.
pub trait VSeq { type E; spec fn vs(&self) -> Seq<Self::E>; }
impl VSeq for &[u8] { type E = u8; open spec fn vs(&self) -> Seq<u8> { self@ } }
impl VSeq for Vec<u8> { type E = u8; open spec fn vs(&self) -> Seq<u8> { self@ } }
impl VSeq for &str { type E = char; open spec fn vs(&self) -> Seq<char> { self@ } }
impl VSeq for String { type E = char; open spec fn vs(&self) -> Seq<char> { self@ } }
impl VSeq for DigestOut { type E = u8; open spec fn vs(&self) -> Seq<u8> { self.bytes@ } }
#[verifier::external_body]
pub fn veq<A: VSeq, B: VSeq<E = A::E>>(a: &A, b: &B) -> (r: bool) ensures r == (a.vs() == b.vs()) { unimplemented!() }
/// R44: `a.iter().zip(b.iter()).all(|(x, y)| x == y)` and the branch-free fold `.fold(0, |acc, (x, y)| acc | (x ^ y)) == 0`:
/// `zip` stops at the SHORTER operand, so these compare the common prefix only
#[verifier::external_body]
pub fn zip_all_eq<A: VSeq, B: VSeq<E = A::E>>(a: &A, b: &B) -> (r: bool)
    ensures
        r == (forall|i: int| 0 <= i < a.vs().len() && i < b.vs().len() ==> a.vs()[i] == b.vs()[i]),
        a.vs().len() == b.vs().len() ==> r == (a.vs() =~= b.vs()),
{ unimplemented!() }
/// `DigestAlgorithm::from_u32` (num_traits::FromPrimitive derive): the numeric map of
/// src/constants.rs; K:k_digest_algo checks it against the real enum for every u32.
impl DigestAlgorithm {
    #[verifier::external_body]
    pub fn from_u32(n: u32) -> (r: Option<DigestAlgorithm>)
        ensures r == digest_algo_of(n),
    { unimplemented!() }
}
pub open spec fn digest_algo_of(n: u32) -> Option<DigestAlgorithm> {
    if n == 1 { Some(DigestAlgorithm::Md5) }
    else if n == 8 { Some(DigestAlgorithm::Sha2_256) }
    else if n == 9 { Some(DigestAlgorithm::Sha2_384) }
    else if n == 10 { Some(DigestAlgorithm::Sha2_512) }
    else if n == 11 { Some(DigestAlgorithm::Sha2_224) }
    else if n == 12 { Some(DigestAlgorithm::Sha3_256) }
    else if n == 14 { Some(DigestAlgorithm::Sha3_512) }
    else { None }
}
