// ---- A-PGP: signing / verification and base64 armour ---------------------------------------
/// base64 decoding as performed by `decode_sig` (pgp::base64_decoder): a total function into Option
pub uninterp spec fn b64_spec(s: Seq<char>) -> Option<Seq<u8>>;
#[verifier::external_body]
pub fn decode_sig(signature: &str) -> (r: Result<Vec<u8>, Error>)
    ensures match b64_spec(signature@) { Some(b) => r is Ok && r->Ok_0@ == b, None => r is Err },
{ unimplemented!() }
/// the byte string a `impl io::Read` data argument delivers (slice, Cursor, Chain of Cursors)
pub trait VData { spec fn data_bytes(&self) -> Seq<u8>; }
impl VData for &[u8] { open spec fn data_bytes(&self) -> Seq<u8> { self@ } }
pub mod io {
    use super::*;
    pub struct Cursor { pub bytes: Ghost<Seq<u8>> }
    pub struct Chain { pub bytes: Ghost<Seq<u8>> }
    impl Cursor {
        #[verifier::external_body]
        pub fn new(v: &Vec<u8>) -> (r: Cursor) ensures r.bytes@ == v@ { unimplemented!() }
        #[verifier::external_body]
        pub fn chain(self, other: Cursor) -> (r: Chain) ensures r.bytes@ == self.bytes@ + other.bytes@ { unimplemented!() }
    }
    impl VData for Cursor { open spec fn data_bytes(&self) -> Seq<u8> { self.bytes@ } }
    impl VData for Chain { open spec fn data_bytes(&self) -> Seq<u8> { self.bytes@ } }
}
pub mod signature {
    use super::*;
    /// R7: logging helper (its own no-panic obligation is K:k_echo_signature on the real text)
    #[verifier::external_body]
    pub fn echo_signature(scope: &str, signature: &[u8]) { }
    /// `trait Verifying`: a verifier is a function of the bytes and the signature it is shown
    /// (`accepts` uninterpreted; a stateful verifier is outside the model).
    pub trait Verifying {
        spec fn accepts(&self, data: Seq<u8>, sig: Seq<u8>) -> bool;
        fn verify<D: VData>(&self, data: D, signature: &[u8]) -> (r: Result<(), Error>)
            ensures r is Ok <==> self.accepts(data.data_bytes(), signature@);
    }
    /// `trait Signing`: Ok(s) is the signer's output over exactly the bytes it was shown
    pub trait Signing {
        spec fn signed(&self, data: Seq<u8>, t: Timestamp) -> Seq<u8>;
        fn sign<D: VData>(&self, data: D, t: Timestamp) -> (r: Result<Vec<u8>, Error>)
            ensures r is Ok ==> r->Ok_0@ == self.signed(data.data_bytes(), t);
    }
}
