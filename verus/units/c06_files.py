"""C06 (per-file data, emitting half): for every file the builder holds, one iteration of the file loop
of prepare_data appends THAT file's size, mode, clamped mtime, digest, link target, flags, owner, group,
verify flags, base name and the index of its directory to the sixteen parallel arrays (so element i of
every array belongs to file i), and the arrays are emitted under the rpm tags of those fields with the
types rpm prescribes.  The build host is emitted when set.  Block contracts (2.1a)."""
import re
from vunit import Raw, Prelude, Fn, Decl, Block
from common import *

NAME = 'c06_files'
BUILDER = 'src/rpm/builder.rs'
LT = (re.compile(r'if ([A-Za-z_][\w.]*) < ([A-Za-z_][\w.]*) =>'), r'if ts_lt(\1, \2) =>', None, 'R11-derived PartialOrd on Timestamp')

PARTS = HEAD + consts('INDEX_HEADER_SIZE', 'INDEX_ENTRY_SIZE', 'HEADER_MAGIC') + io_head() + header_types() + [
    Prelude('hdrspec.rs'),
] + tag_enums() + [
    Decl('src/rpm/timestamp.rs', 'struct', 'Timestamp'),
    Raw('''
impl Copy for Timestamp {}
impl Clone for Timestamp { fn clone(&self) -> Self { *self } }
#[verifier::external_body]
pub fn ts_lt(a: Timestamp, b: Timestamp) -> (r: bool) ensures r == (a.0 < b.0) { a.0 < b.0 }
impl Timestamp {
    /// derived Ord on the tuple struct: `a.min(b)` / `a.max(b)` by the seconds
    #[verifier::external_body]
    pub fn min(self, o: Timestamp) -> (r: Timestamp) ensures r.0 == (if self.0 <= o.0 { self.0 } else { o.0 }) { unimplemented!() }
    #[verifier::external_body]
    pub fn max(self, o: Timestamp) -> (r: Timestamp) ensures r.0 == (if self.0 >= o.0 { self.0 } else { o.0 }) { unimplemented!() }
}
impl<T: Tag> IndexEntry<T> {
    /// V:c09_from_entries:IndexEntry::new
    #[verifier::external_body]
    pub fn new(tag: T, offset: i32, data: IndexData) -> (r: IndexEntry<T>)
        ensures r.tag == tag.spec_to_u32(), r.offset == offset, r.data == data,
    { unimplemented!() }
}
// ---- R5: opaque field types with the one observation the blocks use ------------------------------
pub struct FileMode { pub bits: u16 }
pub struct FileFlags { pub b: u32 }
pub struct FileVerifyFlags { pub b: u32 }
pub struct FileCaps { pub text: String }
impl Copy for FileMode {}
impl Clone for FileMode { fn clone(&self) -> Self { *self } }
impl FileFlags { #[verifier::external_body] pub fn bits(&self) -> (r: u32) ensures r == self.b { unimplemented!() } }
impl FileVerifyFlags { #[verifier::external_body] pub fn bits(&self) -> (r: u32) ensures r == self.b { unimplemented!() } }
/// R7: `entry.mode.into()` (FileMode -> u16: the mode word, C18), `mtime.into()` (Timestamp -> u32)
#[verifier::external_body]
pub fn mode_into_u16(m: FileMode) -> (r: u16) ensures r == m.bits { unimplemented!() }
#[verifier::external_body]
pub fn ts_into_u32(t: Timestamp) -> (r: u32) ensures r == t.0 { unimplemented!() }
#[verifier::external_body]
pub fn string_to_owned(s: &String) -> (r: String) ensures r@ == s@ { unimplemented!() }
#[verifier::external_body]
pub fn str_to_owned(s: &str) -> (r: String) ensures r@ == s@ { unimplemented!() }
#[verifier::external_body]
pub fn caps_to_owned(c: &Option<FileCaps>) -> (r: Option<FileCaps>) ensures r == *c { unimplemented!() }
#[verifier::external_body]
pub fn vec_one_u32(x: u32) -> (r: Vec<u32>) ensures r@ == seq![x] { unimplemented!() }
'''),
    Decl(TYPES, 'struct', 'PackageFileEntry'),
    Raw('''
/// BTreeSet<String> of directory names: `position` of a name in its (ascending) iteration order
pub struct DirSet { pub names: Ghost<Seq<Seq<char>>> }
/// R36: `self.directories.iter().position(|d| d == &entry.dir)`
#[verifier::external_body]
pub fn dir_position(dirs: &DirSet, dir: &String) -> (r: Option<usize>)
    ensures match r {
        Some(i) => i < dirs.names@.len() && dirs.names@[i as int] == dir@,
        None => forall|j: int| 0 <= j < dirs.names@.len() ==> dirs.names@[j] != dir@,
    },
{ unimplemented!() }
/// R36: `self.directories.into_iter().collect()`: the names in iteration order
#[verifier::external_body]
pub fn dirs_into_vec(dirs: DirSet) -> (r: Vec<String>) ensures strs(r@) == dirs.names@ { unimplemented!() }
/// R35: `v.extend([a, b, ..])`
#[verifier::external_body]
pub fn vec_extend_arr<T, const N: usize>(v: &mut Vec<T>, a: [T; N]) ensures final(v)@ == old(v)@ + a@ { unimplemented!() }
pub open spec fn strs(v: Seq<String>) -> Seq<Seq<char>> { Seq::new(v.len(), |i: int| v[i]@) }
pub open spec fn clamped(sd: Option<Timestamp>, x: Timestamp) -> u32 {
    match sd { Some(d) => if d.0 < x.0 { d.0 } else { x.0 }, None => x.0 }
}
/// the sixteen parallel per-file arrays of prepare_data
pub struct FileArrays {
    pub file_sizes: Vec<u64>, pub file_modes: Vec<u16>, pub file_caps: Vec<Option<FileCaps>>, pub file_rdevs: Vec<u16>,
    pub file_devices: Vec<u32>, pub file_mtimes: Vec<u32>, pub file_hashes: Vec<String>, pub file_linktos: Vec<String>,
    pub file_flags: Vec<u32>, pub file_usernames: Vec<String>, pub file_groupnames: Vec<String>, pub file_inodes: Vec<u32>,
    pub file_langs: Vec<String>, pub dir_indixes: Vec<u32>, pub base_names: Vec<String>, pub file_verify_flags: Vec<u32>,
}
/// BTreeMap<String, PackageFileEntry>: the sizes of its entries in iteration order
pub struct FileMap { pub sizes: Ghost<Seq<u64>> }
/// R8: `for (k, v) in self.files.iter()`
#[verifier::external_body]
pub fn files_pairs<'a>(m: &'a FileMap) -> (r: Vec<(&'a String, &'a PackageFileEntry)>)
    ensures r@.len() == m.sizes@.len(), forall|j: int| 0 <= j < r@.len() ==> (#[trigger] r@[j]).1.size == m.sizes@[j],
{ unimplemented!() }
pub struct PackageBuilder { pub source_date: Option<Timestamp>, pub directories: DirSet, pub build_host: Option<String>, pub files: FileMap }
/// every array got exactly THIS file's field appended (so the arrays stay aligned, file by file)
pub open spec fn file_appended(a: FileArrays, b: FileArrays, e: PackageFileEntry, sd: Option<Timestamp>, dirs: Seq<Seq<char>>, ino: u32) -> bool {
    &&& b.file_sizes@ == a.file_sizes@.push(e.size)
    &&& b.file_modes@ == a.file_modes@.push(e.mode.bits)
    &&& b.file_caps@ == a.file_caps@.push(e.caps)
    &&& b.file_rdevs@ == a.file_rdevs@.push(0u16)
    &&& b.file_devices@ == a.file_devices@.push(1u32)
    &&& b.file_mtimes@ == a.file_mtimes@.push(clamped(sd, e.modified_at))
    &&& strs(b.file_hashes@) == strs(a.file_hashes@).push(e.sha_checksum@)
    &&& strs(b.file_linktos@) == strs(a.file_linktos@).push(e.link@)
    &&& b.file_flags@ == a.file_flags@.push(e.flags.b)
    &&& strs(b.file_usernames@) == strs(a.file_usernames@).push(e.user@)
    &&& strs(b.file_groupnames@) == strs(a.file_groupnames@).push(e.group@)
    &&& b.file_inodes@ == a.file_inodes@.push(ino)
    &&& b.file_langs@.len() == a.file_langs@.len() + 1
    &&& b.dir_indixes@.len() == a.dir_indixes@.len() + 1
    &&& 0 <= b.dir_indixes@.last() < dirs.len() && dirs[b.dir_indixes@.last() as int] == e.dir@     // the index of ITS directory
    &&& strs(b.base_names@) == strs(a.base_names@).push(e.base_name@)
    &&& b.file_verify_flags@ == a.file_verify_flags@.push(e.verify_flags.b)
}
/// sum of a sequence of sizes (mathematical)
pub open spec fn sum_u64(v: Seq<u64>) -> int
    decreases v.len(),
{
    if v.len() == 0 { 0 } else { sum_u64(v.drop_last()) + v.last() as int }
}
pub proof fn lemma_sum_prefix(v: Seq<u64>, k: int)
    requires 0 <= k <= v.len(),
    ensures 0 <= sum_u64(v.subrange(0, k)) <= sum_u64(v),
    decreases v.len() - k,
{
    lemma_sum_bounds(v.subrange(0, k));
    if k < v.len() {
        lemma_sum_prefix(v, k + 1);
        assert(v.subrange(0, k + 1).drop_last() =~= v.subrange(0, k));
    } else {
        assert(v.subrange(0, k) =~= v);
    }
}
pub proof fn lemma_sum_bounds(v: Seq<u64>)
    ensures forall|i: int| 0 <= i < v.len() ==> #[trigger] v[i] as int <= sum_u64(v), sum_u64(v) >= 0,
    decreases v.len(),
{
    if v.len() > 0 {
        lemma_sum_bounds(v.drop_last());
        assert forall|i: int| 0 <= i < v.len() implies #[trigger] v[i] as int <= sum_u64(v) by {
            if i < v.len() - 1 { assert(v.drop_last()[i] == v[i]); }
        }
    }
}
/// R12: `v.into_iter().map(u32::try_from).collect::<Result<_, _>>()`: Ok with the narrowed values iff every value fits
pub struct TryFromIntError;
#[verifier::external]
impl std::fmt::Debug for TryFromIntError { fn fmt(&self, f: &mut std::fmt::Formatter<'_>) -> std::fmt::Result { Ok(()) } }
#[verifier::external_body]
pub fn try_narrow_u32(v: Vec<u64>) -> (r: Result<Vec<u32>, TryFromIntError>)
    ensures
        r is Ok <==> forall|i: int| 0 <= i < v@.len() ==> v@[i] <= 0xffff_ffff,
        r is Ok ==> r->Ok_0@.len() == v@.len() && forall|i: int| 0 <= i < v@.len() ==> r->Ok_0@[i] as u64 == v@[i],
{ unimplemented!() }
pub proof fn lemma_strs_push(v: Seq<String>, s: String)
    ensures strs(v.push(s)) == strs(v).push(s@),
{
    assert(strs(v.push(s)) =~= strs(v).push(s@));
}
impl PackageBuilder {
'''),
    Block(BUILDER, 'prepare_data', impl='impl PackageBuilder', exclusive=True, keep_start=True,
          start='            file_sizes.push(entry.size);', end='            let content = entry.content.to_owned();',
          subs=[LT,
                ('entry.mode.into()', 'mode_into_u16(entry.mode)', 1, 'R7-FileMode into u16'),
                ('mtime.into()', 'ts_into_u32(mtime)', 1, 'R7-Timestamp into u32'),
                ('entry.caps.to_owned()', 'caps_to_owned(&entry.caps)', 1, 'R12-to_owned'),
                (re.compile(r'entry\.(sha_checksum|link|user|group|base_name)\.to_owned\(\)'), r'string_to_owned(&entry.\1)', None, 'R12-to_owned'),
                ('"".to_string()', 'str_to_owned("")', 1, 'R12-to_string on a literal'),
                (re.compile(r'self\s*\.directories\s*\.iter\(\)\s*\.position\(\|d\| d == &entry\.dir\)'), 'dir_position(&self.directories, &entry.dir)', 1, 'R36-position in the ordered directory set'),
                (re.compile(r'\b(file_sizes|file_modes|file_caps|file_rdevs|file_devices|file_mtimes|file_hashes|file_linktos|file_flags|file_usernames|file_groupnames|file_inodes|file_langs|dir_indixes|base_names|file_verify_flags)\.push\('), r'a.\1.push(', None, 'block free variables: the arrays are fields of one struct'),
                ],
          header='''    /// B10 - one iteration of the file loop (the statements between the owner bookkeeping and the payload writing).
    /// Free variables: self.source_date, self.directories, entry, ino_index, the sixteen arrays (a).
    /// `now` / `build_time`: the clock reading and the clamped build time - values prepare_data computes elsewhere; passed in
    /// so that a body that starts to use them here is judged (against the file's OWN clamped time) instead of rejected.
    pub fn b10_file_arrays(&self, entry: &PackageFileEntry, ino_index: u32, a: &mut FileArrays, now: Timestamp, build_time: Timestamp)
        requires
            build_time.0 == clamped(self.source_date, now),
            // established by add_data for every entry it stores (unit c06_add_data: entry.dir is inserted into directories)
            exists|j: int| 0 <= j < self.directories.names@.len() && self.directories.names@[j] == entry.dir@,
            self.directories.names@.len() <= u32::MAX,
        ensures
            file_appended(*old(a), *final(a), *entry, self.source_date, self.directories.names@, ino_index),''',
          prologue=None,
          tail='''
            proof {
                lemma_strs_push(old(a).file_hashes@, a.file_hashes@.last()); lemma_strs_push(old(a).file_linktos@, a.file_linktos@.last());
                lemma_strs_push(old(a).file_usernames@, a.file_usernames@.last()); lemma_strs_push(old(a).file_groupnames@, a.file_groupnames@.last());
                lemma_strs_push(old(a).base_names@, a.base_names@.last());
            }'''),
    Block(BUILDER, 'prepare_data', impl='impl PackageBuilder', exclusive=True, keep_start=True,
          start='            actual_records.extend([\n                size_entry,', end='            if file_caps.iter().any(',
          subs=[(re.compile(r'\A'), '            let mut actual_records = records;\n', 1, 'block prologue: bind the free variable'),
                ('actual_records.extend([', 'vec_extend_arr(&mut actual_records, [', 1, 'R35-Vec::extend with an array'),
                ('vec![DigestAlgorithm::Sha2_256 as u32]', 'vec_one_u32(DigestAlgorithm::Sha2_256 as u32)', 1, 'R9-vec![x]'),
                ('self.directories.into_iter().collect()', 'dirs_into_vec(self.directories)', 1, 'R36-the ordered directory set as a Vec'),
                (re.compile(r'\((file_modes|file_rdevs|file_devices|file_mtimes|file_hashes|file_linktos|file_flags|file_usernames|file_groupnames|file_inodes|file_langs|dir_indixes|base_names|file_verify_flags)\)'), r'(a.\1)', None, 'block free variables: the arrays are fields of one struct'),
                ],
          header='''    /// B11 - the per-file arrays are emitted under the rpm tags of their fields, with rpm's types.
    /// Free variables: self.directories, offset, actual_records, size_entry, the arrays (a).
    pub fn b11_file_records(self, offset: i32, records: Vec<IndexEntry<IndexTag>>, size_entry: IndexEntry<IndexTag>, a: FileArrays) -> (r: Vec<IndexEntry<IndexTag>>)
        ensures
            r@.len() == records@.len() + 17,
            r@.subrange(0, records@.len() as int) == records@,
            r@[records@.len() as int] == size_entry,
            rec_u16s(r@[records@.len() as int + 1], 1030, a.file_modes@),              // RPMTAG_FILEMODES
            rec_u16s(r@[records@.len() as int + 2], 1033, a.file_rdevs@),              // RPMTAG_FILERDEVS
            rec_u32s(r@[records@.len() as int + 3], 1034, a.file_mtimes@),             // RPMTAG_FILEMTIMES
            rec_strs(r@[records@.len() as int + 4], 1035, a.file_hashes@),             // RPMTAG_FILEDIGESTS
            rec_strs(r@[records@.len() as int + 5], 1036, a.file_linktos@),            // RPMTAG_FILELINKTOS
            rec_u32s(r@[records@.len() as int + 6], 1037, a.file_flags@),              // RPMTAG_FILEFLAGS
            rec_strs(r@[records@.len() as int + 7], 1039, a.file_usernames@),          // RPMTAG_FILEUSERNAME
            rec_strs(r@[records@.len() as int + 8], 1040, a.file_groupnames@),         // RPMTAG_FILEGROUPNAME
            rec_u32s(r@[records@.len() as int + 9], 1095, a.file_devices@),            // RPMTAG_FILEDEVICES
            rec_u32s(r@[records@.len() as int + 10], 1096, a.file_inodes@),            // RPMTAG_FILEINODES
            rec_u32s(r@[records@.len() as int + 11], 1116, a.dir_indixes@),            // RPMTAG_DIRINDEXES
            rec_strs(r@[records@.len() as int + 12], 1097, a.file_langs@),             // RPMTAG_FILELANGS
            rec_u32s(r@[records@.len() as int + 13], 5011, seq![8u32]),                // RPMTAG_FILEDIGESTALGO = SHA-256
            rec_u32s(r@[records@.len() as int + 14], 1045, a.file_verify_flags@),      // RPMTAG_FILEVERIFYFLAGS
            rec_strs(r@[records@.len() as int + 15], 1117, a.base_names@),             // RPMTAG_BASENAMES
            r@[records@.len() as int + 16].tag == 1118 && r@[records@.len() as int + 16].data is StringArray   // RPMTAG_DIRNAMES: the directory set, in its order
                && strs(r@[records@.len() as int + 16].data->StringArray_0@) == self.directories.names@,''',
          tail='''
            proof { assert(actual_records@.subrange(0, records@.len() as int) =~= records@); }
            actual_records'''),
    Block(BUILDER, 'prepare_data', impl='impl PackageBuilder', exclusive=True, keep_start=True,
          start='        for (_, entry) in self.files.iter() {', end='        for (file_index, (cpio_path, entry)) in self.files.iter().enumerate() {',
          subs=[(re.compile(r'\A'), '        let mut combined_file_sizes: u64 = combined0;\n', 1, 'block prologue: bind the free variable'),
                ('u32::MAX.into()', '(u32::MAX as u64)', 1, 'R7-lossless widening conversion u32 -> u64')],
          index_loops={0: ('i_f', '''            invariant
                i_f <= pairs.len(),
                pairs@.len() == files.sizes@.len(),
                forall|j: int| 0 <= j < pairs@.len() ==> (#[trigger] pairs@[j]).1.size == files.sizes@[j],
                combined_file_sizes as int == sum_u64(files.sizes@.subrange(0, i_f as int)),
                sum_u64(files.sizes@) <= u64::MAX,
            decreases pairs.len() - i_f,''', '''proof {
                assert(files.sizes@.subrange(0, i_f as int + 1).drop_last() =~= files.sizes@.subrange(0, i_f as int));
                lemma_sum_prefix(files.sizes@, i_f as int + 1);
            }
        ''', ('self.files.iter()', 'let files = &self.files; let pairs = files_pairs(files);', 'pairs'))},
          before=[('            combined_file_sizes += entry.size;', 'proof { lemma_sum_prefix(files.sizes@, i_f as int + 1); assert(files.sizes@.subrange(0, i_f as int + 1).drop_last() =~= files.sizes@.subrange(0, i_f as int)); }\n')],
          header='''    /// B13 - the package uses the large-file format exactly when the file sizes add up to more than u32::MAX.
    /// Free variables: self.files, combined_file_sizes (0 on entry).
    pub fn b13_uses_large_files(&self, combined0: u64) -> (uses_large_files: bool)
        requires
            combined0 == 0,
            sum_u64(self.files.sizes@) <= u64::MAX,        // the contents are in memory: their lengths cannot add up to 2^64
        ensures uses_large_files == (sum_u64(self.files.sizes@) > 0xffff_ffff),''',
          tail='''
        proof { assert(self.files.sizes@.subrange(0, pairs.len() as int) =~= self.files.sizes@); }
        uses_large_files'''),
    Block(BUILDER, 'prepare_data', impl='impl PackageBuilder', exclusive=True, keep_start=True,
          start='            let size_entry = if uses_large_files {', end='            actual_records.extend([\n                size_entry,',
          subs=[(re.compile(r'file_sizes\s*\.into_iter\(\)\s*\.map\(u32::try_from\)\s*\.collect::<Result<_, _>>\(\)'), 'try_narrow_u32(file_sizes)', 1, 'R12-element-wise u32::try_from collected into a Result'),
                (re.compile(r'\.expect\(\s*"[^"]*"\s*,?\s*\)'), '.unwrap()', None, 'R4-expect-message'),
                (re.compile(r'\A'), '            proof { if !uses_large_files { lemma_sum_bounds(file_sizes@); } }\n', 1, 'block prologue: proof hint')],
          header='''    /// B12 - the file sizes: 64-bit under LONGFILESIZES when the package uses large files, else narrowed to 32 bits under
    /// FILESIZES - and narrowing cannot fail (the `expect`), because the sizes sum up to at most u32::MAX then.
    pub fn b12_size_entry(offset: i32, uses_large_files: bool, file_sizes: Vec<u64>) -> (r: IndexEntry<IndexTag>)
        requires
            uses_large_files == (sum_u64(file_sizes@) > 0xffff_ffff),          // established by block b13 and the pushes of b10
        ensures
            uses_large_files ==> r.tag == 5008 && r.data is Int64 && r.data->Int64_0@ == file_sizes@,      // RPMTAG_LONGFILESIZES
            !uses_large_files ==> r.tag == 1028 && r.data is Int32 && r.data->Int32_0@.len() == file_sizes@.len()   // RPMTAG_FILESIZES
                && forall|i: int| 0 <= i < file_sizes@.len() ==> r.data->Int32_0@[i] as u64 == file_sizes@[i],''',
          tail='''
            size_entry'''),
    Block(BUILDER, 'prepare_data', impl='impl PackageBuilder', exclusive=True, keep_start=True,
          start='        if let Some(build_host) = self.build_host {', end='        // if we have an empty RPM, we have to leave out all file related index entries.',
          subs=[(re.compile(r'\A'), '        let mut actual_records = records;\n', 1, 'block prologue: bind the free variable')],
          header='''    /// B8 - the build host is emitted when set.  Free variables: self.build_host, offset, actual_records
    pub fn b8_build_host(self, offset: i32, records: Vec<IndexEntry<IndexTag>>) -> (r: Vec<IndexEntry<IndexTag>>)
        ensures
            r@.subrange(0, records@.len() as int) == records@,
            match self.build_host {
                Some(h) => r@.len() == records@.len() + 1 && r@.last().tag == 1007 && r@.last().data == IndexData::StringTag(h),   // RPMTAG_BUILDHOST
                None => r@ == records@,
            },''',
          tail='''
        proof { assert(actual_records@.subrange(0, records@.len() as int) =~= records@); }
        actual_records'''),
    Raw('''}
pub open spec fn rec_u16s(e: IndexEntry<IndexTag>, tag: u32, v: Seq<u16>) -> bool { e.tag == tag && e.data is Int16 && e.data->Int16_0@ == v }
pub open spec fn rec_u32s(e: IndexEntry<IndexTag>, tag: u32, v: Seq<u32>) -> bool { e.tag == tag && e.data is Int32 && e.data->Int32_0@ == v }
pub open spec fn rec_strs(e: IndexEntry<IndexTag>, tag: u32, v: Seq<String>) -> bool { e.tag == tag && e.data is StringArray && e.data->StringArray_0@ == v }
// vacuity canaries: must FAIL
pub fn canary_b10(b: &PackageBuilder, e: &PackageFileEntry, a: &mut FileArrays, now: Timestamp, bt: Timestamp)
    requires exists|j: int| 0 <= j < b.directories.names@.len() && b.directories.names@[j] == e.dir@, b.directories.names@.len() <= u32::MAX,
        bt.0 == clamped(b.source_date, now),
{
    b.b10_file_arrays(e, 0, a, now, bt);
    assert(a.file_sizes@.len() == 0);
}
pub fn canary_b11(b: PackageBuilder, records: Vec<IndexEntry<IndexTag>>, size_entry: IndexEntry<IndexTag>, a: FileArrays)
{
    let r = b.b11_file_records(0, records, size_entry, a);
    assert(r@.len() == 0);
}
'''),
] + TAIL

OBLIGATIONS = {'PackageBuilder::b10_file_arrays': ['C06', 'C08'], 'lemma_strs_push': ['C06'], 'PackageBuilder::b11_file_records': ['C06', 'C08'], 'PackageBuilder::b8_build_host': ['C06'], 'PackageBuilder::b12_size_entry': ['C06', 'C09', 'C17'], 'lemma_sum_bounds': ['C06'], 'lemma_sum_prefix': ['C06'], 'PackageBuilder::b13_uses_large_files': ['C06', 'C09']}
CANARIES = ['canary_b10', 'canary_b11']
