"""C06 (dependencies and changelog, emitting half): for each of the eight dependency kinds the three
parallel arrays built by prepare_data are the names, flags and versions of the builder's list IN ORDER
(loop blocks), and they are emitted under the three rpm tags of THAT kind whenever the list is not empty
(the provides always); the changelog names, texts and times are emitted in order under their tags.
Block contracts (2.1a); the numeric tags are written in the contracts."""
import re
from vunit import Raw, Prelude, Fn, Decl, Block
from common import *

NAME = 'c06_deps'
BUILDER = 'src/rpm/builder.rs'

# (builder field, array prefix, name tag, version tag, flags tag)
KINDS = [
    ('provides', 'provide', 1047, 1113, 1112),
    ('obsoletes', 'obsolete', 1090, 1115, 1114),
    ('requires', 'require', 1049, 1050, 1048),
    ('conflicts', 'conflicts', 1054, 1055, 1053),
    ('recommends', 'recommends', 5046, 5047, 5048),
    ('suggests', 'suggests', 5049, 5050, 5051),
    ('enhances', 'enhances', 5055, 5056, 5057),
    ('supplements', 'supplements', 5052, 5053, 5054),
]

LOOP_BLOCKS = []
for _k, (_f, _p, _tn, _tv, _tf) in enumerate(KINDS):
    _end = ('        let mut %s_names = Vec::new();' % KINDS[_k + 1][1]) if _k + 1 < len(KINDS) else '        let offset = 0;'
    _inv = '''            invariant
                i_d <= deps.len(),
                deps@ == self.%(f)s@,
                strs(%(p)s_names@) == strs(old(%(p)s_names)@) + Seq::new(i_d as nat, |j: int| deps@[j].name@),
                %(p)s_flags@ == old(%(p)s_flags)@ + Seq::new(i_d as nat, |j: int| deps@[j].flags.b),
                strs(%(p)s_versions@) == strs(old(%(p)s_versions)@) + Seq::new(i_d as nat, |j: int| deps@[j].version@),
            decreases deps.len() - i_d,''' % dict(f=_f, p=_p)
    _tail = '''proof {
                lemma_strs_push(n0, %(p)s_names@.last()); lemma_strs_push(v0, %(p)s_versions@.last());
                assert(strs(%(p)s_names@) =~= strs(old(%(p)s_names)@) + Seq::new(i_d as nat + 1, |j: int| deps@[j].name@));
                assert(%(p)s_flags@ =~= old(%(p)s_flags)@ + Seq::new(i_d as nat + 1, |j: int| deps@[j].flags.b));
                assert(strs(%(p)s_versions@) =~= strs(old(%(p)s_versions)@) + Seq::new(i_d as nat + 1, |j: int| deps@[j].version@));
            }
        ''' % dict(p=_p)
    LOOP_BLOCKS.append(Block(
        BUILDER, 'prepare_data', impl='impl PackageBuilder', exclusive=True, keep_start=True,
        start='        for d in self.%s.into_iter() {' % _f, end=_end,
        index_loops={0: ('i_d', _inv, _tail, ('self.%s.into_iter()' % _f, 'let deps = vec_moved(&self.%s);' % _f, 'deps', 'dep_take(&{v}, {i}); let ghost n0 = %s_names@; let ghost v0 = %s_versions@' % (_p, _p)))},
        header='''    /// D%(k)d - the %(f)s: names, flags and versions of the list, in order.  Free variables: self.%(f)s, the three arrays
    pub fn d_%(f)s(&self, %(p)s_names: &mut Vec<String>, %(p)s_flags: &mut Vec<u32>, %(p)s_versions: &mut Vec<String>)
        ensures
            strs(final(%(p)s_names)@) == strs(old(%(p)s_names)@) + dep_names(self.%(f)s@),
            final(%(p)s_flags)@ == old(%(p)s_flags)@ + dep_flags(self.%(f)s@),
            strs(final(%(p)s_versions)@) == strs(old(%(p)s_versions)@) + dep_versions(self.%(f)s@),''' % dict(k=_k + 1, f=_f, p=_p),
        tail=''))

REC_BLOCKS = []
for _k, (_f, _p, _tn, _tv, _tf) in enumerate(KINDS):
    if _k == 0:
        continue   # the provides are emitted unconditionally, with extend([..]): block R1 below
    _end = ('        if !%s_flags.is_empty() {' % KINDS[_k + 1][1]) if _k + 1 < len(KINDS) else '        if let Some(script) = self.pre_inst_script {'
    REC_BLOCKS.append(Block(
        BUILDER, 'prepare_data', impl='impl PackageBuilder', exclusive=True, keep_start=True,
        start='        if !%s_flags.is_empty() {' % _p, end=_end,
        subs=[(re.compile(r'\A'), '        let mut actual_records = records;\n', 1, 'block prologue: bind the free variable'),
              ('!%s_flags.is_empty()' % _p, '!vec_is_empty(&%s_flags)' % _p, 1, 'R12-Vec::is_empty')],
        header='''    /// R%(k)d - the %(f)s arrays are emitted under the tags of THAT kind when the list is not empty.
    pub fn r_%(f)s(offset: i32, records: Vec<IndexEntry<IndexTag>>, %(p)s_names: Vec<String>, %(p)s_flags: Vec<u32>, %(p)s_versions: Vec<String>) -> (r: Vec<IndexEntry<IndexTag>>)
        ensures dep_records(records@, r@, %(p)s_names@, %(p)s_versions@, %(p)s_flags@, %(tn)d, %(tv)d, %(tf)d, false),''' % dict(k=_k + 1, f=_f, p=_p, tn=_tn, tv=_tv, tf=_tf),
        tail='''
        proof { assert(actual_records@.subrange(0, records@.len() as int) =~= records@); }
        actual_records'''))

PARTS = HEAD + consts('INDEX_HEADER_SIZE', 'INDEX_ENTRY_SIZE', 'HEADER_MAGIC') + io_head() + header_types() + [
    Prelude('hdrspec.rs'),
] + tag_enums() + [
    Decl('src/rpm/timestamp.rs', 'struct', 'Timestamp'),
    Raw('''
impl<T: Tag> IndexEntry<T> {
    /// V:c09_from_entries:IndexEntry::new
    #[verifier::external_body]
    pub fn new(tag: T, offset: i32, data: IndexData) -> (r: IndexEntry<T>)
        ensures r.tag == tag.spec_to_u32(), r.offset == offset, r.data == data,
    { unimplemented!() }
}
/// R5: bitflags type; only `bits()` is used
pub struct DependencyFlags { pub b: u32 }
impl DependencyFlags { #[verifier::external_body] pub fn bits(&self) -> (r: u32) ensures r == self.b { unimplemented!() } }
'''),
    Decl(TYPES, 'struct', 'Dependency'),
    Raw('''
pub open spec fn strs(v: Seq<String>) -> Seq<Seq<char>> { Seq::new(v.len(), |i: int| v[i]@) }
pub open spec fn dep_names(d: Seq<Dependency>) -> Seq<Seq<char>> { Seq::new(d.len(), |j: int| d[j].name@) }
pub open spec fn dep_flags(d: Seq<Dependency>) -> Seq<u32> { Seq::new(d.len(), |j: int| d[j].flags.b) }
pub open spec fn dep_versions(d: Seq<Dependency>) -> Seq<Seq<char>> { Seq::new(d.len(), |j: int| d[j].version@) }
pub proof fn lemma_strs_push(v: Seq<String>, s: String)
    ensures strs(v.push(s)) == strs(v).push(s@),
{
    assert(strs(v.push(s)) =~= strs(v).push(s@));
}
/// R8: `for d in self.<list>.into_iter()`: the list itself, element by element, in order
#[verifier::external_body]
pub fn vec_moved(v: &Vec<Dependency>) -> (r: Vec<Dependency>) ensures r@ == v@ { unimplemented!() }
#[verifier::external_body]
pub fn dep_take(v: &Vec<Dependency>, i: usize) -> (r: Dependency) requires i < v@.len() ensures r == v@[i as int] { unimplemented!() }
#[verifier::external_body]
pub fn vec_is_empty<T>(v: &Vec<T>) -> (r: bool) ensures r == (v@.len() == 0) { v.is_empty() }
/// R35: `v.extend([a, b, ..])`
#[verifier::external_body]
pub fn vec_extend_arr<T, const N: usize>(v: &mut Vec<T>, a: [T; N]) ensures final(v)@ == old(v)@ + a@ { unimplemented!() }
/// R12: `times.into_iter().map(Into::into).collect()`: the seconds of each timestamp, in order
#[verifier::external_body]
pub fn timestamps_into_u32(v: Vec<Timestamp>) -> (r: Vec<u32>) ensures r@ == Seq::new(v@.len(), |j: int| v@[j].0) { unimplemented!() }
/// the three records of one dependency kind: names and versions as string arrays, flags as int32, appended in
/// this order - always (`always`) or exactly when the list is not empty; nothing else changes
pub open spec fn dep_records(old_r: Seq<IndexEntry<IndexTag>>, new_r: Seq<IndexEntry<IndexTag>>, names: Seq<String>, versions: Seq<String>, flags: Seq<u32>,
                             t_name: u32, t_version: u32, t_flags: u32, always: bool) -> bool {
    if always || flags.len() > 0 {
        &&& new_r.len() == old_r.len() + 3
        &&& new_r.subrange(0, old_r.len() as int) == old_r
        &&& new_r[old_r.len() as int].tag == t_name && new_r[old_r.len() as int].data is StringArray && new_r[old_r.len() as int].data->StringArray_0@ == names
        &&& new_r[old_r.len() as int + 1].tag == t_version && new_r[old_r.len() as int + 1].data is StringArray && new_r[old_r.len() as int + 1].data->StringArray_0@ == versions
        &&& new_r[old_r.len() as int + 2].tag == t_flags && new_r[old_r.len() as int + 2].data is Int32 && new_r[old_r.len() as int + 2].data->Int32_0@ == flags
    } else {
        new_r == old_r
    }
}
pub struct PackageBuilder {
    pub provides: Vec<Dependency>, pub obsoletes: Vec<Dependency>, pub requires: Vec<Dependency>, pub conflicts: Vec<Dependency>,
    pub recommends: Vec<Dependency>, pub suggests: Vec<Dependency>, pub enhances: Vec<Dependency>, pub supplements: Vec<Dependency>,
    pub changelog_names: Vec<String>, pub changelog_entries: Vec<String>, pub changelog_times: Vec<Timestamp>,
}
impl PackageBuilder {
'''),
] + LOOP_BLOCKS + [
    Block(BUILDER, 'prepare_data', impl='impl PackageBuilder', exclusive=True, keep_start=True,
          start='        actual_records.extend([\n            IndexEntry::new(\n                IndexTag::RPMTAG_PROVIDENAME,',
          end='        // digest of the uncompressed raw archive calculated on the inner writer',
          subs=[(re.compile(r'\A'), '        let mut actual_records = records;\n', 1, 'block prologue: bind the free variable'),
                ('actual_records.extend([', 'vec_extend_arr(&mut actual_records, [', 1, 'R35-Vec::extend with an array')],
          header='''    /// R1 - the provides arrays are always emitted.
    pub fn r_provides(offset: i32, records: Vec<IndexEntry<IndexTag>>, provide_names: Vec<String>, provide_flags: Vec<u32>, provide_versions: Vec<String>) -> (r: Vec<IndexEntry<IndexTag>>)
        ensures dep_records(records@, r@, provide_names@, provide_versions@, provide_flags@, 1047, 1113, 1112, true),''',
          tail='''
        proof { assert(actual_records@.subrange(0, records@.len() as int) =~= records@); }
        actual_records'''),
] + REC_BLOCKS + [
    Block(BUILDER, 'prepare_data', impl='impl PackageBuilder', exclusive=True, keep_start=True,
          start='        if !self.changelog_names.is_empty() {', end='        if !obsolete_flags.is_empty() {',
          subs=[(re.compile(r'\A'), '        let mut actual_records = records;\n', 1, 'block prologue: bind the free variable'),
                ('!self.changelog_names.is_empty()', '!vec_is_empty(&self.changelog_names)', 1, 'R12-Vec::is_empty'),
                ('self.changelog_times.into_iter().map(Into::into).collect()', 'timestamps_into_u32(self.changelog_times)', 1, 'R12-Timestamp into u32, element-wise')],
          header='''    /// CL - the changelog: names, texts and times in the order given, under CHANGELOGNAME / TEXT / TIME.
    pub fn r_changelog(self, offset: i32, records: Vec<IndexEntry<IndexTag>>) -> (r: Vec<IndexEntry<IndexTag>>)
        ensures
            r@.subrange(0, records@.len() as int) == records@,
            self.changelog_names@.len() == 0 ==> r@ == records@,
            self.changelog_names@.len() > 0 ==> {
                &&& r@.len() == records@.len() + 3
                &&& r@[records@.len() as int].tag == 1081 && r@[records@.len() as int].data == IndexData::StringArray(self.changelog_names)
                &&& r@[records@.len() as int + 1].tag == 1082 && r@[records@.len() as int + 1].data == IndexData::StringArray(self.changelog_entries)
                &&& r@[records@.len() as int + 2].tag == 1080 && r@[records@.len() as int + 2].data is Int32
                &&& r@[records@.len() as int + 2].data->Int32_0@ == Seq::new(self.changelog_times@.len(), |j: int| self.changelog_times@[j].0)
            },''',
          tail='''
        proof { assert(actual_records@.subrange(0, records@.len() as int) =~= records@); }
        actual_records'''),
    Raw('''}
// vacuity canaries: must FAIL
pub fn canary_deps(b: &PackageBuilder, n: &mut Vec<String>, f: &mut Vec<u32>, v: &mut Vec<String>)
    requires b.requires@.len() > 0,
{
    b.d_requires(n, f, v);
    assert(f@.len() == old(f)@.len());
}
'''),
] + TAIL

OBLIGATIONS = {}
for _f, _p, _tn, _tv, _tf in KINDS:
    OBLIGATIONS['PackageBuilder::d_%s' % _f] = ['C06']
    OBLIGATIONS['PackageBuilder::r_%s' % _f] = ['C06']
OBLIGATIONS['PackageBuilder::r_changelog'] = ['C06']
CANARIES = ['canary_deps']
