"""C13 (second sentence only): comparing two EVRs compares epoch (empty meaning 0), then version,
then release with the string comparison; NEVRAs compare name, then EVR, then arch; and the
resulting relation is a total preorder WHENEVER the string comparison is one.  The string
comparison itself (`compare_version_string` = rpmvercmp) is NOT decided (uninterpreted)."""
import re
from vunit import Raw, Prelude, Fn, Decl
from common import *

NAME = 'c13_evr'
VER = 'src/version.rs'
COW = (re.compile(r"Cow<'a, str>"), 'String', None, "R5-Cow<'a,str> fields as String (only their text is used)")
LT = (re.compile(r"<'a>"), '', None, 'R5-lifetime-parameter')
LT2 = (re.compile(r"Evr<'a>"), 'Evr', None, 'R5-lifetime-parameter')

PARTS = [Prelude('head.rs'), Prelude('vercmp.rs')] + [
    Decl(VER, 'struct', 'Evr', subs=[COW, LT]),
    Decl(VER, 'struct', 'Nevra', subs=[COW, LT2, LT]),
    Raw('''
/// the string comparison is rpmvercmp (prelude/vercmp.rs)
pub open spec fn vercmp(a: Seq<char>, b: Seq<char>) -> Ordering { rpmvercmp(a, b) }
/// V:c13_vercmp:compare_version_string (proved there on the verbatim body)
#[verifier::external_body]
pub fn compare_version_string(version1: &str, version2: &str) -> (r: Ordering)
    ensures r == vercmp(version1@, version2@),
{ unimplemented!() }
/// R11: `!=` on core::cmp::Ordering
#[verifier::external_body]
pub fn ord_ne(a: Ordering, b: Ordering) -> (r: bool) ensures r == (a != b) { a != b }

// ---- C13, second sentence, written from the statement -----------------------------------------
pub open spec fn epoch_or_zero(e: Seq<char>) -> Seq<char> { if e.len() == 0 { seq!['0'] } else { e } }
pub open spec fn lex3(a: Ordering, b: Ordering, c: Ordering) -> Ordering {
    if a != Ordering::Equal { a } else if b != Ordering::Equal { b } else { c }
}
pub open spec fn evr_cmp(a: Evr, b: Evr) -> Ordering {
    lex3(vercmp(epoch_or_zero(a.epoch@), epoch_or_zero(b.epoch@)), vercmp(a.version@, b.version@), vercmp(a.release@, b.release@))
}
pub open spec fn nevra_cmp(a: Nevra, b: Nevra) -> Ordering {
    lex3(vercmp(a.name@, b.name@), evr_cmp(a.evr, b.evr), vercmp(a.arch@, b.arch@))
}
impl Evr {
'''),
    Fn(VER, 'cmp', impl="impl Ord for Evr<'_>",
       subs=[('fn cmp(&self, other: &Self) -> Ordering', 'pub fn cmp(&self, other: &Self) -> (r: Ordering)', 1, 'R10-trait-impl-as-inherent-fn'),
             (re.compile(r'(\w+) != Ordering::Equal'), r'ord_ne(\1, Ordering::Equal)', None, 'R11-Ordering-comparison'),
             (re.compile(r'&self\.(epoch|version|release)\b'), r'self.\1.as_str()', None, 'R5-Cow deref'),
             (re.compile(r'&other\.(epoch|version|release)\b'), r'other.\1.as_str()', None, 'R5-Cow deref')],
       spec='    ensures r == evr_cmp(*self, *other),',
       prologue='proof { reveal_strlit("0"); assert("0"@ =~= seq![\'0\']); }'),
    Raw('}\nimpl Nevra {\n'),
    Fn(VER, 'cmp', impl="impl Ord for Nevra<'_>",
       subs=[('fn cmp(&self, other: &Self) -> Ordering', 'pub fn cmp(&self, other: &Self) -> (r: Ordering)', 1, 'R10-trait-impl-as-inherent-fn'),
             (re.compile(r'(\w+) != Ordering::Equal'), r'ord_ne(\1, Ordering::Equal)', None, 'R11-Ordering-comparison'),
             (re.compile(r'&self\.(name|arch)\b'), r'self.\1.as_str()', None, 'R5-Cow deref'),
             (re.compile(r'&other\.(name|arch)\b'), r'other.\1.as_str()', None, 'R5-Cow deref')],
       spec='    ensures r == nevra_cmp(*self, *other),'),
    Raw('''}
// ---- the order laws lift from the string comparison to EVRs ------------------------------------
/// what "total preorder" means for a three-way comparison
pub open spec fn vercmp_is_total_preorder() -> bool {
    &&& forall|a: Seq<char>| #[trigger] vercmp(a, a) == Ordering::Equal
    &&& forall|a: Seq<char>, b: Seq<char>| #[trigger] vercmp(a, b) == rev(vercmp(b, a))
    &&& forall|a: Seq<char>, b: Seq<char>, c: Seq<char>| le(#[trigger] vercmp(a, b)) && le(#[trigger] vercmp(b, c)) ==> le(vercmp(a, c))
    &&& forall|a: Seq<char>, b: Seq<char>, c: Seq<char>| #[trigger] vercmp(a, b) == Ordering::Equal && #[trigger] vercmp(b, c) == Ordering::Equal ==> vercmp(a, c) == Ordering::Equal
    &&& forall|a: Seq<char>, b: Seq<char>, c: Seq<char>| #[trigger] vercmp(a, b) == Ordering::Equal && le(#[trigger] vercmp(b, c)) ==> vercmp(a, c) == vercmp(b, c)
    &&& forall|a: Seq<char>, b: Seq<char>, c: Seq<char>| le(#[trigger] vercmp(a, b)) && #[trigger] vercmp(b, c) == Ordering::Equal ==> vercmp(a, c) == vercmp(a, b)
}
pub proof fn lemma_evr_order(a: Evr, b: Evr, c: Evr)
    requires vercmp_is_total_preorder(),
    ensures
        evr_cmp(a, a) == Ordering::Equal,                       // reflexive
        evr_cmp(a, b) == rev(evr_cmp(b, a)),                    // antisymmetric under swapping arguments
        le(evr_cmp(a, b)) && le(evr_cmp(b, c)) ==> le(evr_cmp(a, c)),   // transitive
{
    let ea = epoch_or_zero(a.epoch@);
    let eb = epoch_or_zero(b.epoch@);
    let ec = epoch_or_zero(c.epoch@);
    assert(vercmp(ea, eb) == rev(vercmp(eb, ea)));
    assert(vercmp(a.version@, b.version@) == rev(vercmp(b.version@, a.version@)));
    assert(vercmp(a.release@, b.release@) == rev(vercmp(b.release@, a.release@)));
    if le(evr_cmp(a, b)) && le(evr_cmp(b, c)) {
        // case analysis on where the first strict component is
        let e1 = vercmp(ea, eb); let e2 = vercmp(eb, ec);
        let v1 = vercmp(a.version@, b.version@); let v2 = vercmp(b.version@, c.version@);
        let r1 = vercmp(a.release@, b.release@); let r2 = vercmp(b.release@, c.release@);
        assert(le(e1) && le(e2));
        assert(le(vercmp(ea, ec)));
        if vercmp(ea, ec) == Ordering::Equal {
            assert(e1 == Ordering::Equal && e2 == Ordering::Equal) by {
                if e1 != Ordering::Equal {
                    // e1 Less, e2 <= : then a<c strictly unless contradiction via preorder laws
                    assert(vercmp(ec, ea) == Ordering::Equal);
                    assert(le(vercmp(eb, ec)) && vercmp(ec, ea) == Ordering::Equal ==> vercmp(eb, ea) == vercmp(eb, ec));
                }
                if e2 != Ordering::Equal {
                    assert(vercmp(ec, ea) == Ordering::Equal);
                    assert(vercmp(ec, ea) == Ordering::Equal && le(vercmp(ea, eb)) ==> vercmp(ec, eb) == vercmp(ea, eb));
                }
            }
            assert(le(v1) && le(v2));
            assert(le(vercmp(a.version@, c.version@)));
            if vercmp(a.version@, c.version@) == Ordering::Equal {
                assert(v1 == Ordering::Equal && v2 == Ordering::Equal) by {
                    if v1 != Ordering::Equal {
                        assert(vercmp(c.version@, a.version@) == Ordering::Equal);
                        assert(le(vercmp(b.version@, c.version@)) && vercmp(c.version@, a.version@) == Ordering::Equal ==> vercmp(b.version@, a.version@) == vercmp(b.version@, c.version@));
                    }
                    if v2 != Ordering::Equal {
                        assert(vercmp(c.version@, a.version@) == Ordering::Equal);
                        assert(vercmp(c.version@, a.version@) == Ordering::Equal && le(vercmp(a.version@, b.version@)) ==> vercmp(c.version@, b.version@) == vercmp(a.version@, b.version@));
                    }
                }
                assert(le(r1) && le(r2));
            }
        }
    }
}
/// the premise of lemma_evr_order holds: rpmvercmp is a total preorder (prelude/vercmp.rs, proved)
pub proof fn lemma_vercmp_is_total_preorder()
    ensures vercmp_is_total_preorder(),
{
    assert forall|a: Seq<char>| #[trigger] vercmp(a, a) == Ordering::Equal by { lemma_rpmvercmp_total_preorder(a, a, a); }
    assert forall|a: Seq<char>, b: Seq<char>| #[trigger] vercmp(a, b) == rev(vercmp(b, a)) by { lemma_rpmvercmp_total_preorder(a, b, a); }
    assert forall|a: Seq<char>, b: Seq<char>, c: Seq<char>| le(#[trigger] vercmp(a, b)) && le(#[trigger] vercmp(b, c)) implies le(vercmp(a, c)) by { lemma_rpmvercmp_total_preorder(a, b, c); }
    assert forall|a: Seq<char>, b: Seq<char>, c: Seq<char>| #[trigger] vercmp(a, b) == Ordering::Equal && #[trigger] vercmp(b, c) == Ordering::Equal implies vercmp(a, c) == Ordering::Equal by { lemma_rpmvercmp_total_preorder(a, b, c); }
    assert forall|a: Seq<char>, b: Seq<char>, c: Seq<char>| #[trigger] vercmp(a, b) == Ordering::Equal && le(#[trigger] vercmp(b, c)) implies vercmp(a, c) == vercmp(b, c) by { lemma_rpmvercmp_total_preorder(a, b, c); }
    assert forall|a: Seq<char>, b: Seq<char>, c: Seq<char>| le(#[trigger] vercmp(a, b)) && #[trigger] vercmp(b, c) == Ordering::Equal implies vercmp(a, c) == vercmp(a, b) by { lemma_rpmvercmp_total_preorder(a, b, c); }
}
/// C13, unconditionally: EVR comparison is reflexive, antisymmetric under swapping, transitive
pub proof fn lemma_evr_total_preorder(a: Evr, b: Evr, c: Evr)
    ensures
        evr_cmp(a, a) == Ordering::Equal,
        evr_cmp(a, b) == rev(evr_cmp(b, a)),
        le(evr_cmp(a, b)) && le(evr_cmp(b, c)) ==> le(evr_cmp(a, c)),
{
    lemma_vercmp_is_total_preorder();
    lemma_evr_order(a, b, c);
}
// vacuity canary: must FAIL
pub fn canary_c13(a: &Evr, b: &Evr)
{
    let r = a.cmp(b);
    assert(r == Ordering::Equal);
}
'''),
] + TAIL

OBLIGATIONS = {'Evr::cmp': ['C13'], 'Nevra::cmp': ['C13'], 'lemma_evr_order': ['C13'], 'lemma_vercmp_is_total_preorder': ['C13'], 'lemma_evr_total_preorder': ['C13']}
CANARIES = ['canary_c13']
