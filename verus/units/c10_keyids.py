"""C10 ("it reports exactly that key's id as signer"): Package::signature_key_ids returns, for a
signature header with an OPENPGP entry, the issuer ids of ALL its signatures in order when each of them
decodes, parses and names exactly one issuer - and an error otherwise; without an OPENPGP entry the single
issuer of the last legacy signature consulted (PGP over DSA over RSA).

Verbatim body; base64 decoding, OpenPGP packet parsing and the issuer list are uninterpreted functions of
the bytes (pgp crate: trusted); the iterator chain that formats the ids is rewritten to a helper."""
import re
from vunit import Raw, Prelude, Fn, Decl
from common import *

NAME = 'c10_keyids'

LOOP = '''                invariant
                    i_s <= sigs.len(),
                    sigs@.len() == openpgp_sigs@.len(),
                    forall|k: int| 0 <= k < sigs@.len() ==> *(#[trigger] sigs@[k]) == openpgp_sigs@[k],
                    strs(key_ids@) == ids_of(openpgp_sigs@.subrange(0, i_s as int)),
                    forall|k: int| 0 <= k < i_s ==> one_issuer(#[trigger] openpgp_sigs@[k]),
                decreases sigs.len() - i_s,'''

PARTS = HEAD + consts('LEAD_SIZE', 'INDEX_HEADER_SIZE', 'INDEX_ENTRY_SIZE', 'HEADER_MAGIC') + io_head() + header_types() + [
    Prelude('hdrspec.rs'),
] + tag_enums() + [
    Prelude('getters.rs'),
    Raw('pub struct Lead { pub bytes: [u8; 96] }\n'),
    Decl(PKG, 'struct', 'PackageMetadata'),
    Decl(PKG, 'struct', 'Package'),
    Raw('''
// ---- A-PGP: base64 armour, packet parsing and issuers as functions of the bytes ------------------
pub uninterp spec fn b64_bytes(armoured: Seq<u8>) -> Option<Seq<u8>>;
pub uninterp spec fn utf8(s: Seq<char>) -> Seq<u8>;
pub struct PgpSignature { pub raw: Ghost<Seq<u8>> }
/// the first signature packet in the bytes, if there is one
pub uninterp spec fn parses(bytes: Seq<u8>) -> bool;
/// the hexadecimal issuer ids of that packet, in order
pub uninterp spec fn issuers_hex(bytes: Seq<u8>) -> Seq<Seq<char>>;
pub struct Base64Reader { pub src: Ghost<Seq<u8>> }
pub struct Base64Decoder { pub src: Ghost<Seq<u8>> }
impl Base64Reader {
    #[verifier::external_body]
    pub fn new(b: &[u8]) -> (r: Base64Reader) ensures r.src@ == b@ { unimplemented!() }
}
impl Base64Decoder {
    #[verifier::external_body]
    pub fn new(r: Base64Reader) -> (d: Base64Decoder) ensures d.src@ == r.src@ { unimplemented!() }
    /// io::Read::read_to_end on the decoder: appends the decoded bytes or fails
    #[verifier::external_body]
    pub fn read_to_end(&mut self, buf: &mut Vec<u8>) -> (r: Result<usize, Error>)
        ensures match b64_bytes(old(self).src@) {
            Some(d) => r is Ok && final(buf)@ == old(buf)@ + d,
            None => r is Err,
        },
    { unimplemented!() }
}
#[verifier::external_body]
pub fn string_as_bytes(s: &String) -> (r: &[u8]) ensures r@ == utf8(s@) { s.as_bytes() }
pub struct Verifier;
impl Verifier {
    #[verifier::external_body]
    pub fn parse_signature(signature: &[u8]) -> (r: Result<PgpSignature, Error>)
        ensures r is Ok <==> parses(signature@), r is Ok ==> r->Ok_0.raw@ == signature@,
    { unimplemented!() }
}
/// R34: `sig.issuer().iter().map(|x| format!("{:x}", x)).collect()`
#[verifier::external_body]
pub fn issuer_ids_hex(sig: &PgpSignature) -> (r: Vec<String>) ensures strs(r@) == issuers_hex(sig.raw@) { unimplemented!() }
/// R12: `v.extend(w)`
#[verifier::external_body]
pub fn vec_extend(v: &mut Vec<String>, w: Vec<String>) ensures final(v)@ == old(v)@ + w@ { unimplemented!() }
/// R12: `n.try_into().unwrap()` for the error payload (usize -> u32; not part of the claim)
#[verifier::external_body]
pub fn count_u32(n: usize) -> u32 { unimplemented!() }
pub open spec fn strs(v: Seq<String>) -> Seq<Seq<char>> { Seq::new(v.len(), |i: int| v[i]@) }

// ---- C10, the reported signer ---------------------------------------------------------------------
/// one armoured signature of the OPENPGP entry decodes, parses and names exactly one issuer
pub open spec fn one_issuer(armoured: String) -> bool {
    &&& b64_bytes(utf8(armoured@)) is Some
    &&& parses(b64_bytes(utf8(armoured@))->0)
    &&& issuers_hex(b64_bytes(utf8(armoured@))->0).len() == 1
}
/// the ids reported for a list of such signatures: the issuer of each, in order
pub open spec fn ids_of(arr: Seq<String>) -> Seq<Seq<char>>
    decreases arr.len(),
{
    if arr.len() == 0 { Seq::empty() } else { ids_of(arr.drop_last()) + issuers_hex(b64_bytes(utf8(arr.last()@))->0) }
}
pub open spec fn legacy_sig(sig: Header<IndexSignatureTag>) -> Option<Seq<u8>> {
    match get_bin(sig, 1002) { Some(b) => Some(b), None => match get_bin(sig, 267) { Some(b) => Some(b), None => get_bin(sig, 268) } }
}
impl Package {
'''),
    Fn(PKG, 'signature_key_ids', impl='impl Package',
       subs=[ret(),
             ('pub fn signature_key_ids', '#[verifier::loop_isolation(false)]\n    pub fn signature_key_ids', 1, 'verifier attribute: facts about variables the loop does not modify stay available'),
             ('base64_sig.as_bytes()', 'string_as_bytes(base64_sig)', 1, 'A-UTF8'),
             (re.compile(r'let (\w+): Vec<String> = (\w+)\s*\.issuer\(\)\s*\.iter\(\)\s*\.map\(\|(\w+)\| format!\("\{:x\}", \3\)\)\s*\.collect\(\);'),
              r'let \1: Vec<String> = issuer_ids_hex(&\2);', 1, 'R34-issuer ids formatted as hexadecimal'),
             (re.compile(r'let (\w+): Vec<String> = (\w+)\?\s*\.issuer\(\)\s*\.iter\(\)\s*\.map\(\|(\w+)\| format!\("\{:x\}", \3\)\)\s*\.collect\(\);'),
              r'let sig_parsed = \2?;\n            let \1: Vec<String> = issuer_ids_hex(&sig_parsed);', 1, 'R34-issuer ids formatted as hexadecimal'),
             (re.compile(r'(\w+)\.len\(\)\.try_into\(\)\.unwrap\(\)'), r'count_u32(\1.len())', None, 'R12-usize into the error payload'),
             (re.compile(r'\bkey_ids\.extend\((\w+)\);'), r'vec_extend(&mut key_ids, \1);', 1, 'R12-Vec::extend'),
             ('decoder.read_to_end(&mut signature)?;', 'decoder.read_to_end(&mut signature)?;\n                proof { assert(signature@ =~= b64_bytes(utf8(base64_sig@))->0); }', 1, 'proof hint (no code change)'),
             ],
       spec='''    ensures
        match get_strarr(self.metadata.signature, 278) {
            // an OPENPGP entry: every signature in it is reported, in order, provided each names one issuer
            Some(arr) => {
                &&& r is Ok <==> forall|k: int| 0 <= k < arr.len() ==> one_issuer(#[trigger] arr[k])
                &&& r is Ok ==> strs(r->Ok_0@) == ids_of(arr)
            },
            // legacy tags only: the one issuer of the signature consulted last (PGP, else DSA, else RSA)
            None => match legacy_sig(self.metadata.signature) {
                None => r is Err,
                Some(b) => {
                    &&& r is Ok <==> parses(b) && issuers_hex(b).len() == 1
                    &&& r is Ok ==> strs(r->Ok_0@) == issuers_hex(b)
                },
            },
        },''',
       index_loops={0: ('i_s', LOOP, '''proof {
                    let pre = openpgp_sigs@.subrange(0, i_s as int + 1);
                    assert(pre.drop_last() =~= openpgp_sigs@.subrange(0, i_s as int));
                    assert(pre.last() == openpgp_sigs@[i_s as int]);
                }
            ''', ('openpgp_sigs.iter()', 'let sigs = strarr_items(openpgp_sigs);', 'sigs'))},
       before=[('            Ok(key_ids)\n        } else {', '''            proof { assert(openpgp_sigs@.subrange(0, sigs.len() as int) =~= openpgp_sigs@); }
''')],
       ),
    Raw('''}
/// R8: `for s in arr.iter()` over the &[String] of a string-array entry: its items, in order
#[verifier::external_body]
pub fn strarr_items<'a>(arr: &'a [String]) -> (r: Vec<&'a String>) ensures r@.len() == arr@.len(), forall|i: int| 0 <= i < arr@.len() ==> *(#[trigger] r@[i]) == arr@[i] { unimplemented!() }
// vacuity canary: must FAIL
pub fn canary_c10_ids(p: &Package)
{
    let r = p.signature_key_ids();
    assert(r is Err);
}
'''),
] + TAIL

OBLIGATIONS = {'Package::signature_key_ids': ['C10']}
CANARIES = ['canary_c10_ids']
