"""C17 (destinations): PackageBuilder::add_data - the function every file setter goes through - never
panics, whatever std::path reports about the destination: the verbatim body is verified against Path /
OsStr stand-ins whose results are ARBITRARY (no specification at all), so every `unwrap` / `expect` on
one of them is an unprovable precondition.  A destination without a parent is an error."""
import re
from vunit import Raw, Prelude, Fn, Decl
from common import *

NAME = 'c17_add_data'
BUILDER = 'src/rpm/builder.rs'

PARTS = [Prelude('head.rs')] + [
    Decl('src/rpm/timestamp.rs', 'struct', 'Timestamp'),
    Raw('''
/// R5: the one error variant add_data constructs
pub enum Error { InvalidDestinationPath { path: String, desc: &'static str }, Other }
// ---- R5 stand-ins for std::path: every query returns an ARBITRARY value (no `ensures`), the functions
// ---- themselves are assumed not to panic (std documents none of them as panicking)
pub struct PathBuf;
pub struct Path;
pub struct OsStr;
pub struct StripPrefixError;
pub struct CowStr;
#[verifier::external]
impl std::fmt::Debug for StripPrefixError {
    fn fmt(&self, f: &mut std::fmt::Formatter<'_>) -> std::fmt::Result { Ok(()) }
}
impl PathBuf {
    #[verifier::external_body]
    pub fn from(s: String) -> PathBuf { unimplemented!() }
    #[verifier::external_body]
    pub fn parent(&self) -> Option<&Path> { unimplemented!() }
    #[verifier::external_body]
    pub fn file_name(&self) -> Option<&OsStr> { unimplemented!() }
}
impl Path {
    #[verifier::external_body]
    pub fn strip_prefix(&self, base: &str) -> Result<&Path, StripPrefixError> { unimplemented!() }
    #[verifier::external_body]
    pub fn to_string_lossy(&self) -> CowStr { unimplemented!() }
    #[verifier::external_body]
    pub fn parent(&self) -> Option<&Path> { unimplemented!() }
    #[verifier::external_body]
    pub fn file_name(&self) -> Option<&OsStr> { unimplemented!() }
}
impl OsStr {
    #[verifier::external_body]
    pub fn to_string_lossy(&self) -> CowStr { unimplemented!() }
    #[verifier::external_body]
    pub fn to_str(&self) -> Option<&str> { unimplemented!() }
}
impl CowStr {
    #[verifier::external_body]
    pub fn to_string(&self) -> String { unimplemented!() }
    #[verifier::external_body]
    pub fn into_owned(self) -> String { unimplemented!() }
}
/// R12: `s.starts_with(<literal>)`, `s.to_string()`, `s.clone()`, `format!(..)` - string plumbing with arbitrary results
#[verifier::external_body]
pub fn starts_with_str(s: &String, p: &str) -> bool { unimplemented!() }
#[verifier::external_body]
pub fn starts_with_char(s: &String, p: char) -> bool { unimplemented!() }
#[verifier::external_body]
pub fn ends_with_char(s: &String, p: char) -> bool { unimplemented!() }
/// `s.starts_with([c1, c2, ..])`: any of the characters
#[verifier::external_body]
pub fn starts_with_any(s: &String) -> bool { unimplemented!() }
#[verifier::external_body]
pub fn string_clone(s: &String) -> (r: String) ensures r@ == s@ { unimplemented!() }
#[verifier::external_body]
pub fn format1(fmt: &str, a: &CowStr) -> String { unimplemented!() }
#[verifier::external_body]
pub fn format1s(fmt: &str, a: &String) -> String { unimplemented!() }
// ---- R5: opaque field types, the SHA-256 / hex plumbing and the two collections of the builder
pub struct FileMode;
pub struct FileFlags;
pub struct FileCaps;
pub struct FileVerifyFlags;
pub mod sha2 {
    use vstd::prelude::*;
    pub struct Sha256;
    pub struct Output;
    impl Sha256 {
        #[verifier::external_body]
        pub fn default() -> Sha256 { unimplemented!() }
        #[verifier::external_body]
        pub fn update(&mut self, data: &Vec<u8>) { unimplemented!() }
        #[verifier::external_body]
        pub fn finalize(self) -> Output { unimplemented!() }
    }
}
pub mod hex {
    #[verifier::external_body]
    pub fn encode(o: super::sha2::Output) -> String { unimplemented!() }
}
pub struct FileMap;
pub struct FileMapEntry;
impl FileMap {
    #[verifier::external_body]
    pub fn entry(&mut self, k: String) -> FileMapEntry { unimplemented!() }
}
impl FileMapEntry {
    #[verifier::external_body]
    pub fn or_insert(self, v: PackageFileEntry) { unimplemented!() }
}
pub struct DirSet;
impl DirSet {
    #[verifier::external_body]
    pub fn insert(&mut self, v: String) -> bool { unimplemented!() }
}
pub struct PackageBuilder { pub files: FileMap, pub directories: DirSet }
'''),
    Decl(TYPES, 'struct', 'FileOptions'),
    Decl(TYPES, 'struct', 'PackageFileEntry'),
    Raw('''
impl PackageBuilder {
'''),
    Fn(BUILDER, 'add_data', impl='impl PackageBuilder',
       subs=[(re.compile(r'\b(\w+)\.starts_with\(("[^"]*")\)'), r'starts_with_str(&\1, \2)', None, 'R12-str::starts_with(literal)'),
             (re.compile(r"\b(\w+)\.starts_with\(('[^']*')\)"), r'starts_with_char(&\1, \2)', None, 'R12-str::starts_with(char)'),
             (re.compile(r"\b(\w+)\.ends_with\(('[^']*')\)"), r'ends_with_char(&\1, \2)', None, 'R12-str::ends_with(char)'),
             (re.compile(r"\b(\w+)\.starts_with\(\[[^\]]*\]\)"), r'starts_with_any(&\1)', None, 'R12-str::starts_with([chars])'),
             (re.compile(r'\.expect\(\s*"[^"]*"\s*,?\s*\)'), '.unwrap()', None, 'R4-expect-message'),
             (re.compile(r'\bdest\.clone\(\)'), 'string_clone(&dest)', None, 'R12-String::clone'),
             (re.compile(r'\bdir\.clone\(\)'), 'string_clone(&dir)', None, 'R12-String::clone'),
             (re.compile(r'\bdest\.to_string\(\)'), 'string_clone(&dest)', None, 'R12-String::to_string'),
             (re.compile(r'format!\(("[^"]*"), (dest|dir)\)'), r'format1s(\1, &\2)', None, 'R12-format!'),
             (re.compile(r'format!\(\s*("[^"]*"),\s*((?:(?!format!)[^;])*?\.to_string_lossy\(\))\s*,?\s*\)'), r'format1(\1, &\2)', None, 'R12-format!'),
             (re.compile(r'\|_\| Error::'), r'|_e: StripPrefixError| Error::', None, 'R23-named closure parameter'),
             ],
       spec='''    ensures true,
    // no-panic is the obligation: every unwrap/expect/index in the body is a precondition to discharge''',
       ),
    Raw('''}
// vacuity canary: must FAIL (an unwrap on an arbitrary std::path result is not provable)
pub fn canary_c17_path(p: &PathBuf)
{
    let n = p.file_name().unwrap();
}
'''),
] + TAIL

OBLIGATIONS = {'PackageBuilder::add_data': ['C17']}
CANARIES = ['canary_c17_path']
