"""C09 (store layout, leaf): IndexData::append writes the alignment padding its type needs (INT16: 2, INT32: 4,
INT64: 8 bytes; zero bytes; the least amount) followed by exactly the encoding of the data - big-endian items,
NUL-terminated strings - for stores and data of ANY size.  Verbatim body; this replaces the bounded Kani leaves
k_append_* as the source of the contract Header::from_entries is verified against (they stay as a cross-check
of the iterator helpers on the real std).

The two iterator chains (`d.iter().map(|i| i.to_be_bytes())`, `d.iter().flat_map(|item| item.to_be_bytes().to_vec())`)
are rewritten to helpers with their meaning: the big-endian bytes of the items, concatenated in order."""
import re
from vunit import Raw, Prelude, Fn, Decl
from common import *

NAME = 'c09_append'


def inv_for(i, vec, acc):
    return '''                invariant
                    %(i)s <= %(vec)s.len(),
                    store@ == %(acc)s,
                decreases %(vec)s.len() - %(i)s,''' % dict(i=i, vec=vec, acc=acc)


def inv_while(a):
    return '''                invariant
                    alignment as int == store@.len() - old(store)@.len(),
                    0 <= alignment as int <= align_pad(old(store)@.len() as int, %(a)d) < %(a)d,
                    store@ == old(store)@ + zeros(alignment as int),
                decreases (%(a)d - store@.len() %% %(a)d) %% %(a)d,''' % dict(a=a)


FOR_ARR = '''                invariant
                    i0 <= arrs.len(),
                    arrs@.len() == d@.len(),
                    forall|j: int| 0 <= j < d@.len() ==> (#[trigger] arrs@[j])@ == seq![d@[j]],
                    store@ == old(store)@ + d@.subrange(0, i0 as int),
                    i0 == arrs.len() ==> store@ == old(store)@ + d@,
                decreases arrs.len() - i0,'''
TAIL_ARR = '''proof {
                    assert(d@.subrange(0, i0 as int + 1) =~= d@.subrange(0, i0 as int).push(d@[i0 as int]));
                    if i0 + 1 == arrs.len() { assert(d@.subrange(0, i0 as int + 1) =~= d@); }
                }
                '''


def for_bytes(i):
    return '''                invariant
                    %(i)s <= iter.len(),
                    store@ == old(store)@ + zeros(alignment as int) + iter@.subrange(0, %(i)s as int),
                    %(i)s == iter.len() ==> store@ == old(store)@ + zeros(alignment as int) + iter@,
                decreases iter.len() - %(i)s,''' % dict(i=i)


def tail_bytes(i):
    return '''proof {
                    assert(iter@.subrange(0, %(i)s as int + 1) =~= iter@.subrange(0, %(i)s as int).push(iter@[%(i)s as int]));
                    if %(i)s + 1 == iter.len() { assert(iter@.subrange(0, %(i)s as int + 1) =~= iter@); }
                }
                ''' % dict(i=i)


def for_strs(i):
    return '''                invariant
                    %(i)s <= items.len(),
                    items@.len() == d@.len(),
                    forall|j: int| 0 <= j < d@.len() ==> *(#[trigger] items@[j]) == d@[j],
                    store@ == old(store)@ + enc_strs(d@.subrange(0, %(i)s as int)),
                    %(i)s == items.len() ==> store@ == old(store)@ + enc_strs(d@),
                decreases items.len() - %(i)s,''' % dict(i=i)


def tail_strs(i):
    return '''proof {
                    lemma_enc_strs_step(d@, %(i)s as int);
                    if %(i)s + 1 == items.len() { assert(d@.subrange(0, %(i)s as int + 1) =~= d@); }
                }
                ''' % dict(i=i)


def flat_rule():
    """R40: the three identical `d.iter().flat_map(|item| item.to_be_bytes().to_vec())` lines, by position: u16, u32, u64"""
    state = {'n': 0}

    def repl(m):
        k = state['n']
        state['n'] += 1
        return 'let iter = %s(d);' % ['flat_be_u16', 'flat_be_u32', 'flat_be_u64'][min(k, 2)]
    return (re.compile(r'let iter = d\.iter\(\)\.flat_map\(\|item\| item\.to_be_bytes\(\)\.to_vec\(\)\);'), repl, 3, 'R40-big-endian bytes of the items, concatenated (by position: u16, u32, u64)')


PARTS = HEAD + consts('INDEX_HEADER_SIZE', 'INDEX_ENTRY_SIZE', 'HEADER_MAGIC') + io_head() + header_types() + [
    Prelude('hdrspec.rs'),
    Raw('''
pub uninterp spec fn utf8(s: Seq<char>) -> Seq<u8>;
pub open spec fn enc_u16s(v: Seq<u16>) -> Seq<u8> decreases v.len() { if v.len() == 0 { Seq::<u8>::empty() } else { enc_u16s(v.drop_last()) + be16(v.last()) } }
pub open spec fn enc_u32s(v: Seq<u32>) -> Seq<u8> decreases v.len() { if v.len() == 0 { Seq::<u8>::empty() } else { enc_u32s(v.drop_last()) + be32(v.last()) } }
pub open spec fn enc_u64s(v: Seq<u64>) -> Seq<u8> decreases v.len() { if v.len() == 0 { Seq::<u8>::empty() } else { enc_u64s(v.drop_last()) + be64(v.last()) } }
pub open spec fn enc_strs(v: Seq<String>) -> Seq<u8> decreases v.len() { if v.len() == 0 { Seq::<u8>::empty() } else { enc_strs(v.drop_last()) + utf8(v.last()@) + seq![0u8] } }
pub open spec fn enc_data(d: IndexData) -> Seq<u8> {
    match d {
        IndexData::Null => Seq::<u8>::empty(),
        IndexData::Char(v) => v@,
        IndexData::Int8(v) => v@,
        IndexData::Bin(v) => v@,
        IndexData::Int16(v) => enc_u16s(v@),
        IndexData::Int32(v) => enc_u32s(v@),
        IndexData::Int64(v) => enc_u64s(v@),
        IndexData::StringTag(s) => utf8(s@) + seq![0u8],
        IndexData::StringArray(v) => enc_strs(v@),
        IndexData::I18NString(v) => enc_strs(v@),
    }
}
pub open spec fn align_of(d: IndexData) -> int {
    match d { IndexData::Int16(_) => 2, IndexData::Int32(_) => 4, IndexData::Int64(_) => 8, _ => 1 }
}
#[verifier::opaque]
pub open spec fn align_pad(len: int, a: int) -> int { (a - len % a) % a }
/// A-UTF8: `s.as_bytes()`
#[verifier::external_body]
pub fn string_bytes(s: &String) -> (r: &[u8]) ensures r@ == utf8(s@) { s.as_bytes() }
/// R40: `d.iter().map(|i| i.to_be_bytes())` over bytes: each item as a 1-byte array
#[verifier::external_body]
pub fn be_arrays_u8(d: &Vec<u8>) -> (r: Vec<[u8; 1]>) ensures r@.len() == d@.len(), forall|j: int| 0 <= j < d@.len() ==> (#[trigger] r@[j])@ == seq![d@[j]] { unimplemented!() }
/// R40: `d.iter().flat_map(|item| item.to_be_bytes().to_vec())`: the big-endian bytes of the items, concatenated in order
#[verifier::external_body]
pub fn flat_be_u16(d: &Vec<u16>) -> (r: Vec<u8>) ensures r@ == enc_u16s(d@) { unimplemented!() }
#[verifier::external_body]
pub fn flat_be_u32(d: &Vec<u32>) -> (r: Vec<u8>) ensures r@ == enc_u32s(d@) { unimplemented!() }
#[verifier::external_body]
pub fn flat_be_u64(d: &Vec<u64>) -> (r: Vec<u8>) ensures r@ == enc_u64s(d@) { unimplemented!() }
/// R8: `for item in d` over &Vec<String>
#[verifier::external_body]
pub fn string_refs<'a>(d: &'a Vec<String>) -> (r: Vec<&'a String>) ensures r@.len() == d@.len(), forall|j: int| 0 <= j < d@.len() ==> *(#[trigger] r@[j]) == d@[j] { unimplemented!() }
/// the padding loop: one more zero byte is still within the least padding while the length is misaligned ..
pub proof fn lemma_pad_step_any(old_len: int, k: int)
    requires old_len >= 0, k >= 0,
    ensures
        (k <= align_pad(old_len, 4) && (old_len + k) % 4 != 0) ==> k + 1 <= align_pad(old_len, 4),
        (k <= align_pad(old_len, 8) && (old_len + k) % 8 != 0) ==> k + 1 <= align_pad(old_len, 8),
{ reveal(align_pad); }
/// the padding of the unaligned types is 0, of INT16 it is the parity; it is never negative
pub proof fn lemma_pad_small(old_len: int)
    requires old_len >= 0,
    ensures align_pad(old_len, 1) == 0, align_pad(old_len, 2) == (if old_len % 2 != 0 { 1int } else { 0int }),
        0 <= align_pad(old_len, 4) < 4, 0 <= align_pad(old_len, 8) < 8,
{ reveal(align_pad); }
/// .. and once the length is aligned, the bytes added are exactly the least padding
pub proof fn lemma_pad_exit_any(old_len: int, k: int)
    requires old_len >= 0, k >= 0,
    ensures
        (k <= align_pad(old_len, 2) && (old_len + k) % 2 == 0) ==> k == align_pad(old_len, 2),
        (k <= align_pad(old_len, 4) && (old_len + k) % 4 == 0) ==> k == align_pad(old_len, 4),
        (k <= align_pad(old_len, 8) && (old_len + k) % 8 == 0) ==> k == align_pad(old_len, 8),
{ reveal(align_pad); }
pub proof fn lemma_enc_strs_step(v: Seq<String>, k: int)
    requires 0 <= k < v.len(),
    ensures enc_strs(v.subrange(0, k + 1)) == enc_strs(v.subrange(0, k)) + utf8(v[k]@) + seq![0u8],
{
    assert(v.subrange(0, k + 1).drop_last() =~= v.subrange(0, k));
    assert(v.subrange(0, k + 1).last() == v[k]);
}
impl IndexData {
'''),
    Fn(HDR, 'append', impl='impl IndexData',
       subs=[ret(),
             (re.compile(r'store\.extend_from_slice\(d\);'), 'store.extend_from_slice(d.as_slice());', None, 'R5-&Vec<u8> to &[u8] deref'),
             (re.compile(r'store\.extend_from_slice\((\w+)\.as_bytes\(\)\);'), r'store.extend_from_slice(string_bytes(\1));', None, 'A-UTF8'),
             flat_rule(),
             ],
       spec='''    ensures
        r as int == align_pad(old(store)@.len() as int, align_of(*self)),
        final(store)@ =~= old(store)@ + zeros(r as int) + enc_data(*self),''',
       prologue='proof { assert(zeros(0) =~= Seq::<u8>::empty()); lemma_pad_small(old(store)@.len() as int); }',
       loops={2: inv_while(4), 4: inv_while(8)},
       before=[('                    store.push(0);\n                    alignment += 1;', 'proof { lemma_pad_step_any(old(store)@.len() as int, alignment as int); }\n', 2),
               ('                let iter = d.iter().flat_map(|item| item.to_be_bytes().to_vec());', 'proof { lemma_pad_exit_any(old(store)@.len() as int, alignment as int); }\n', 3)],
       index_loops={
           0: ('i0', FOR_ARR, TAIL_ARR, ('d.iter().map(|i| i.to_be_bytes())', 'let arrs = be_arrays_u8(d);', 'arrs')),
           1: ('i1', for_bytes('i1'), tail_bytes('i1'), ('iter', '', 'iter')),
           3: ('i3', for_bytes('i3'), tail_bytes('i3'), ('iter', '', 'iter')),
           5: ('i5', for_bytes('i5'), tail_bytes('i5'), ('iter', '', 'iter')),
           6: ('i6', for_strs('i6'), tail_strs('i6'), ('d', 'let items = string_refs(d);', 'items')),
           7: ('i7', for_strs('i7'), tail_strs('i7'), ('d', 'let items = string_refs(d);', 'items')),
       },
       ),
    Raw('}\n'),
] + TAIL

OBLIGATIONS = {'IndexData::append': ['C09'], 'lemma_enc_strs_step': ['C09'], 'lemma_pad_step_any': ['C09'], 'lemma_pad_exit_any': ['C09'], 'lemma_pad_small': ['C09']}
CANARIES = []
