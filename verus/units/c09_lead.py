"""C09 (lead): Lead::new builds the 96-byte lead rpm expects - magic, format 3.0, binary package, architecture 0, os 1
(Linux), signature type 5 (header-style signatures), the package name truncated to 65 bytes and NUL-terminated in the
66-byte name field, reserved bytes zero - for names of ANY length.  Verbatim body; replaces the two-name bounded
Kani leaf k_lead_new as the source of this sentence (it stays as a cross-check)."""
import re
from vunit import Raw, Prelude, Fn, Decl
from common import *

NAME = 'c09_lead'

PARTS = [Prelude('head.rs'), Prelude('serspec.rs'), Decl(CONST, 'const', 'RPM_MAGIC'), Decl(LEAD, 'struct', 'Lead')] + [
    Raw('''
pub uninterp spec fn utf8(s: Seq<char>) -> Seq<u8>;
/// A-UTF8: `name.as_bytes()`, `name.len()`
#[verifier::external_body]
pub fn str_bytes(s: &str) -> (r: &[u8]) ensures r@ == utf8(s@) { s.as_bytes() }
#[verifier::external_body]
pub fn str_len(s: &str) -> (r: usize) ensures r == utf8(s@).len() { s.len() }
/// slicing a `str` by a byte offset panics unless the offset is a character boundary (A-UTF8: an uninterpreted
/// predicate; 0 and the length are boundaries; `is_char_boundary` decides it)
pub uninterp spec fn char_boundary(s: Seq<char>, n: int) -> bool;
pub broadcast axiom fn axiom_boundary_ends(s: Seq<char>)
    ensures #[trigger] char_boundary(s, 0), char_boundary(s, utf8(s).len() as int);
#[verifier::external_body]
pub fn str_slice_to(s: &str, n: usize) -> (r: &str)
    requires n <= utf8(s@).len(), char_boundary(s@, n as int),
    ensures utf8(r@) == utf8(s@).subrange(0, n as int),
{ &s[..n] }
#[verifier::external_body]
pub fn str_is_char_boundary(s: &str, n: usize) -> (r: bool) ensures r == (n <= utf8(s@).len() && char_boundary(s@, n as int)) { s.is_char_boundary(n) }
pub fn vmin(a: usize, b: usize) -> (r: usize) ensures r == (if a <= b { a } else { b }) { if a <= b { a } else { b } }
/// R17: `dst[..n].clone_from_slice(&src[..n])`: the first n bytes of src replace the first n bytes of dst
/// (both slicings and the equal-length requirement of clone_from_slice are the precondition)
#[verifier::external_body]
pub fn copy_prefix(dst: &mut [u8; 66], src: &[u8], n: usize)
    requires n <= 66, n <= src@.len(),
    ensures final(dst)@ == src@.subrange(0, n as int) + old(dst)@.subrange(n as int, 66),
{ dst[..n].clone_from_slice(&src[..n]) }
impl Lead {
'''),
    Fn(LEAD, 'new', impl='impl Lead',
       subs=[ret(),
             ('std::cmp::min(name_arr.len() - 1, name.len())', 'vmin(name_arr.len() - 1, str_len(name))', 1, 'R12-cmp::min; A-UTF8 byte length'),
             (re.compile(r'\b(\w+)\.is_char_boundary\((\w+)\)'), r'str_is_char_boundary(\1, \2)', None, 'A-UTF8: str::is_char_boundary'),
             (re.compile(r'&?\b(\w+)\[\.\.(\w+)\]\.as_bytes\(\)'), r'str_bytes(str_slice_to(\1, \2))', None, 'R17-slicing a str by a byte offset: the offset must be a character boundary'),
             (re.compile(r'(\w+)\[\.\.(\w+)\]\.(?:clone|copy)_from_slice\(&(\w+)\.as_bytes\(\)\[\.\.\2\]\);'), r'copy_prefix(&mut \1, str_bytes(\3), \2);', None, 'R17-slicing + clone_from_slice / copy_from_slice'),
             (re.compile(r'(\w+)\[\.\.(\w+)\]\.(?:clone|copy)_from_slice\((str_bytes\(str_slice_to\(\w+, \2\)\))\);'), r'copy_prefix(&mut \1, \3, \2);', None, 'R17-slicing + clone_from_slice / copy_from_slice'),
             ('let mut name_arr = [0; 66];', 'let mut name_arr: [u8; 66] = [0u8; 66];', 1, 'R9-type-annotation')],
       spec='''    ensures
        r.magic@ == seq![0xedu8, 0xab, 0xee, 0xdb], r.major == 3, r.minor == 0,
        r.package_type == 0, r.arch == 0, r.os == 1, r.signature_type == 5,
        r.reserved@ == zeros(16),
        // the name field: the first min(65, len) bytes of the name, then NULs (so it is always NUL-terminated)
        ({ let n = if utf8(name@).len() <= 65 { utf8(name@).len() as int } else { 65 };
           r.name@ =~= utf8(name@).subrange(0, n) + zeros(66 - n) }),''',
       prologue=None),
    Raw('''}
// vacuity canary: must FAIL
pub fn canary_lead(name: &str)
{
    let l = Lead::new(name);
    assert(l.name@[0] == 0);
}
'''),
] + TAIL

OBLIGATIONS = {'Lead::new': ['C09', 'C17', 'C06']}   # C17/C06: prepare_data calls it with the package name - any string, no panic
CANARIES = ['canary_lead']
