"""C10 (frame + content of the signature header under sign / clear) and C08 (header digest on
sign / clear / build is hex(sha256(ser(header))); the hashing writer absorbs exactly the
accepted bytes)."""
import re
from vunit import Raw, Prelude, Fn, Decl
from common import *

NAME = 'c10_sign'
SIGS = 'src/rpm/headers/signatures.rs'
BUILDER = 'src/rpm/builder.rs'

PARTS = HEAD + consts('LEAD_SIZE', 'INDEX_HEADER_SIZE', 'INDEX_ENTRY_SIZE', 'HEADER_MAGIC') + io_head() + header_types() + [
    Prelude('hdrspec.rs'),
] + tag_enums() + [
    Prelude('getters.rs'),
    Prelude('crypto.rs'),
    Decl('src/rpm/timestamp.rs', 'struct', 'Timestamp'),
    Prelude('sigs.rs'),
    Raw('pub struct Lead { pub bytes: [u8; 96] }\n'),
    Decl(PKG, 'struct', 'PackageMetadata'),
    Decl(PKG, 'struct', 'Package'),
    header_write_contract(),
    Decl(SIGS, 'struct', 'SignatureHeaderBuilder'),
    Raw('''
/// the signature header `SignatureHeaderBuilder::build` produces, as a function of the builder's
/// state (a name for it; what it contains is proved on the verbatim `build` in unit c08_sigbuild)
pub uninterp spec fn built_sig(sha256: Option<Seq<char>>, sigs: Seq<Seq<u8>>) -> Header<IndexSignatureTag>;
pub open spec fn sigs_view(v: Seq<Vec<u8>>) -> Seq<Seq<u8>> { Seq::new(v.len(), |i: int| v[i]@) }
/// the view of an empty list / of a list after a push (stated once, anchor-free: any body that builds its
/// signature list by pushing is judged on its merits, not on the position of a hint)
pub broadcast proof fn lemma_sigs_view_empty(v: Seq<Vec<u8>>)
    requires v.len() == 0,
    ensures #[trigger] sigs_view(v) == Seq::<Seq<u8>>::empty(),
{
    assert(sigs_view(v) =~= Seq::<Seq<u8>>::empty());
}
pub broadcast proof fn lemma_sigs_view_push(v: Seq<Vec<u8>>, x: Vec<u8>)
    ensures #[trigger] sigs_view(v.push(x)) == sigs_view(v).push(x@),
{
    assert(sigs_view(v.push(x)) =~= sigs_view(v).push(x@));
}
pub open spec fn opt_view(o: Option<String>) -> Option<Seq<char>> { match o { Some(s) => Some(s@), None => None } }
/// R12: `&str::to_owned`
#[verifier::external_body]
pub fn str_to_owned(s: &str) -> (r: String) ensures r@ == s@ { s.to_owned() }
impl SignatureHeaderBuilder {
    /// proved in unit c08_sigbuild (V:SignatureHeaderBuilder::build, postcondition sig_header_ok):
    /// the digest is stored under RPMSIGTAG_SHA256 (273) as a string and the header is well formed
    #[verifier::external_body]
    pub fn build(self) -> (r: Result<Header<IndexSignatureTag>, Error>)
        ensures r is Ok ==> r->Ok_0 == built_sig(opt_view(self.header_sha256), sigs_view(self.openpgp_signatures@)),
            (r is Ok && self.header_sha256 is Some) ==> get_str(r->Ok_0, 273) == Some(self.header_sha256->0@),
            r is Ok ==> wf(r->Ok_0),
            self.openpgp_signatures@.len() == 0 ==> r is Ok,
    { unimplemented!() }
'''),
    Fn(SIGS, 'new', impl='impl SignatureHeaderBuilder', subs=[ret()],
       spec='    ensures r.openpgp_signatures@.len() == 0, r.header_sha256 is None,'),
    Fn(SIGS, 'set_sha256_digest', impl='impl SignatureHeaderBuilder',
       subs=[ret(), ('digest_header_sha256.to_owned()', 'str_to_owned(digest_header_sha256)', 1, 'R12-to_owned')] + mut_self(),
       spec='''    ensures r.openpgp_signatures == self.openpgp_signatures,
        opt_view(r.header_sha256) == Some(digest_header_sha256@),'''),
    Fn(SIGS, 'add_openpgp_signature', impl='impl SignatureHeaderBuilder', subs=[ret()] + mut_self(),
       spec='''    ensures r.openpgp_signatures@ == self.openpgp_signatures@.push(signature),
        r.header_sha256 == self.header_sha256,'''),
    Raw('''}
// ---- C10 / C08, written from the statements ----------------------------------------------------
pub open spec fn header_digest(p: Package) -> Seq<char> { hex_spec(sha256_spec(ser_header(p.metadata.header))) }
impl Package {
'''),
    Fn(PKG, 'clear_signatures', impl='impl Package',
       subs=[ret()],
       spec='''    ensures
        // frame: lead, main header and payload are untouched - also when an error is returned
        final(self).metadata.lead == old(self).metadata.lead,
        final(self).metadata.header == old(self).metadata.header,
        final(self).content == old(self).content,
        // the signature header is rebuilt from the true header digest and no signature
        r is Ok ==> final(self).metadata.signature == built_sig(Some(header_digest(*old(self))), Seq::<Seq<u8>>::empty()),
        r is Ok ==> get_str(final(self).metadata.signature, 273) == Some(header_digest(*final(self))),
        r is Err ==> final(self).metadata.signature == old(self).metadata.signature,''',
       prologue='broadcast use lemma_sigs_view_empty, lemma_sigs_view_push;'),
    Fn(PKG, 'sign_with_timestamp', impl='impl Package',
       subs=[ret(),
             ('S: signature::Signing<Signature = Vec<u8>>', 'S: signature::Signing', 1, 'R5-associated-type-binding'),
             ('t: impl TryInto<Timestamp, Error = impl Debug>', 't: Timestamp', 1, 'R21-timestamp-conversion-at-API-boundary (C20 subject)'),
             ('let t = t.try_into().unwrap();', 'let t = t;', 1, 'R21-timestamp-conversion-at-API-boundary (C20 subject)'),
             ],
       spec='''    ensures
        final(self).metadata.lead == old(self).metadata.lead,
        final(self).metadata.header == old(self).metadata.header,
        final(self).content == old(self).content,
        // exactly the signer's output over exactly the serialised header, plus the true digest
        r is Ok ==> final(self).metadata.signature == built_sig(
            Some(header_digest(*old(self))),
            seq![signer.signed(ser_header(old(self).metadata.header), t)]),
        r is Ok ==> get_str(final(self).metadata.signature, 273) == Some(header_digest(*final(self))),
        r is Err ==> final(self).metadata.signature == old(self).metadata.signature,''',
       prologue='broadcast use lemma_sigs_view_empty, lemma_sigs_view_push;',
       ),
    Raw('''}
'''),
    # ---- C08: header digest recorded by the builder ------------------------------------------
    Raw('''
/// R5: PackageBuilder is opaque here; `prepare_data` (750 lines: compressor FFI, clock, paths) is
/// NOT under contract - build() is verified for whatever header and payload it returns.
pub struct PackageBuilder { pub opaque: u8 }
impl PackageBuilder {
    #[verifier::external_body]
    fn prepare_data(self) -> (r: Result<(Lead, Header<IndexTag>, Vec<u8>), Error>) { unimplemented!() }
'''),
    Fn(BUILDER, 'build', impl='impl PackageBuilder',
       subs=[ret(), ('Vec::with_capacity(128)', 'Vec::<u8>::with_capacity(128)', None, 'R9-type-annotation')],
       spec='''    ensures
        r is Ok ==> get_str(r->Ok_0.metadata.signature, 273) == Some(header_digest(r->Ok_0)),
        r is Ok ==> r->Ok_0.metadata.signature == built_sig(Some(header_digest(r->Ok_0)), Seq::<Seq<u8>>::empty()),''',
       prologue='broadcast use lemma_sigs_view_empty, lemma_sigs_view_push;'),
    Raw('}\n'),
    # ---- C08: hashing writer --------------------------------------------------------------
    Decl(TYPES, 'struct', 'Sha256Writer'),
    Raw('impl<W> Sha256Writer<W> {\n'),
    Fn(TYPES, 'new', impl='impl<W> Sha256Writer<W>', subs=[ret()],
       spec='    ensures r.writer == writer, r.hasher.absorbed@ == Seq::<u8>::empty(),'),
    Fn(TYPES, 'into_digest', impl='impl<W> Sha256Writer<W>',
       subs=[('-> impl AsRef<[u8]>', '-> (r: DigestOut)', 1, 'R12-impl-AsRef-return-type')],
       spec='    ensures r.bytes@ == sha256_spec(self.hasher.absorbed@),'),
    Raw('}\nimpl<W: VWrite> Sha256Writer<W> {\n'),
    Fn(TYPES, 'write', impl='impl<W: std::io::Write> std::io::Write for Sha256Writer<W>',
       subs=[('fn write(&mut self, buf: &[u8]) -> std::io::Result<usize>', 'pub fn write(&mut self, buf: &[u8]) -> (r: Result<usize, Error>)', 1, 'R10-trait-impl-as-inherent-fn'),
             ('&buf[..n]', 'slice_to(buf, n)', None, 'R17-slice-to')],
       spec='''    ensures
        // C08: the hasher has absorbed exactly the bytes the inner writer accepted
        match r {
            Ok(n) => n <= buf@.len()
                && final(self).writer.sunk() == old(self).writer.sunk() + buf@.subrange(0, n as int)
                && final(self).hasher.absorbed@ == old(self).hasher.absorbed@ + buf@.subrange(0, n as int),
            Err(_) => final(self).writer.sunk() == old(self).writer.sunk()
                && final(self).hasher.absorbed@ == old(self).hasher.absorbed@,
        },'''),
    Raw('''}
/// R17: `&s[..n]` (panics iff n > len: the precondition IS the no-panic obligation)
#[verifier::external_body]
pub fn slice_to(s: &[u8], n: usize) -> (r: &[u8])
    requires n <= s@.len(),
    ensures r@ == s@.subrange(0, n as int),
{ &s[..n] }
// the invariant "absorbed == what the inner sink accepted since creation" is preserved by write
pub fn c08_hashing_writer_invariant<W: VWrite>(w: &mut Sha256Writer<W>, base: Ghost<Seq<u8>>, buf: &[u8])
    requires old(w).writer.sunk() == base@ + old(w).hasher.absorbed@,
    ensures final(w).writer.sunk() == base@ + final(w).hasher.absorbed@,
{
    let r = w.write(buf);
    assert(w.writer.sunk() =~= base@ + w.hasher.absorbed@);
}
// ---- C10: all histories over {sign(k,t), clear, write+parse} by induction ----------------------
// Abstract state = the three serialised segments.  abs_step is what the contracts above (sign,
// clear) and the C01 contracts (write then parse reproduces every segment's serialisation) give.
pub struct Abs { pub hdr: Seq<u8>, pub content: Seq<u8>, pub sig: Seq<u8> }
pub enum Op { Sign(Seq<u8>), Clear, WriteParse }   // Sign carries the signer's output over a.hdr
pub open spec fn abs_of(p: Package) -> Abs {
    Abs { hdr: ser_header(p.metadata.header), content: p.content@, sig: ser_header(p.metadata.signature) }
}
pub open spec fn hd_of(a: Abs) -> Seq<char> { hex_spec(sha256_spec(a.hdr)) }
pub open spec fn abs_step(a: Abs, op: Op) -> Abs {
    match op {
        Op::Sign(s) => Abs { sig: ser_header(built_sig(Some(hd_of(a)), seq![s])), ..a },
        Op::Clear => Abs { sig: ser_header(built_sig(Some(hd_of(a)), Seq::<Seq<u8>>::empty())), ..a },
        Op::WriteParse => a,
    }
}
pub open spec fn run(a: Abs, ops: Seq<Op>) -> Abs
    decreases ops.len(),
{
    if ops.len() == 0 { a } else { abs_step(run(a, ops.drop_last()), ops.last()) }
}
/// the signature segment determined by the most recent sign / clear (None: untouched)
pub open spec fn last_sig(a: Abs, ops: Seq<Op>) -> Seq<u8>
    decreases ops.len(),
{
    if ops.len() == 0 { a.sig } else {
        match ops.last() {
            Op::Sign(s) => ser_header(built_sig(Some(hd_of(a)), seq![s])),
            Op::Clear => ser_header(built_sig(Some(hd_of(a)), Seq::<Seq<u8>>::empty())),
            Op::WriteParse => last_sig(a, ops.drop_last()),
        }
    }
}
pub proof fn lemma_history(a: Abs, ops: Seq<Op>)
    ensures
        run(a, ops).hdr == a.hdr,           // main header byte-identical to the starting package
        run(a, ops).content == a.content,   // payload byte-identical
        run(a, ops).sig == last_sig(a, ops),// signature header = digest + exactly the last signer's output
    decreases ops.len(),
{
    if ops.len() > 0 {
        lemma_history(a, ops.drop_last());
    }
}
/// the sign / clear contracts are instances of abs_step
pub fn c10_sign_is_step<S: signature::Signing>(p: &mut Package, s: S, t: Timestamp)
    ensures match abs_step(abs_of(*old(p)), Op::Sign(s.signed(ser_header(old(p).metadata.header), t))) {
        st => abs_of(*final(p)) == st || abs_of(*final(p)) == abs_of(*old(p)),
    },
{
    let r = p.sign_with_timestamp(s, t);
}
pub fn c10_clear_is_step(p: &mut Package)
    ensures abs_of(*final(p)) == abs_step(abs_of(*old(p)), Op::Clear) || abs_of(*final(p)) == abs_of(*old(p)),
{
    let r = p.clear_signatures();
}
// vacuity canaries: must FAIL
pub fn canary_c10_sign<S: signature::Signing>(p: &mut Package, s: S, t: Timestamp)
{
    let r = p.sign_with_timestamp(s, t);
    assert(false);
}
pub fn canary_c08_writer<W: VWrite>(w: &mut Sha256Writer<W>, buf: &[u8])
{
    let r = w.write(buf);
    assert(false);
}
'''),
] + TAIL

OBLIGATIONS = {
    'SignatureHeaderBuilder::new': ['C10', 'C08'],
    'SignatureHeaderBuilder::set_sha256_digest': ['C10', 'C08'],
    'SignatureHeaderBuilder::add_openpgp_signature': ['C10'],
    'Package::clear_signatures': ['C10', 'C08'],
    'Package::sign_with_timestamp': ['C10', 'C08', 'C11'],   # C11: the signature is the signer's output for exactly the timestamp given
    'lemma_history': ['C10'],
    'c10_sign_is_step': ['C10'],
    'c10_clear_is_step': ['C10'],
    'PackageBuilder::build': ['C08'],
    'Sha256Writer::new': ['C08'],
    'Sha256Writer::into_digest': ['C08'],
    'Sha256Writer::write': ['C08'],
    'c08_hashing_writer_invariant': ['C08'],
}
CANARIES = ['canary_c10_sign', 'canary_c08_writer']
