"""C13 (first sentence): compare_version_string computes rpm's rpmvercmp - verbatim body of the loop against a
recursive specification transcribed from rpm's lib/rpmvercmp.c (separators skipped, tilde sorts before
everything, caret after the bare version but before any other continuation, digit segments without leading zeros
by length then text, alphabetic segments by text, a numeric segment beats an alphabetic one, leftovers win).

The str plumbing (trim_start_matches, strip_prefix, starts_with, the nested helper matching_contiguous, len, cmp)
is rewritten to helpers carrying std's documented meaning (A-STR); the three character-class closures are
verified against their class predicates (closure contracts spliced)."""
import re
from vunit import Raw, Prelude, Fn, Decl
from common import *

NAME = 'c13_vercmp'
VER = 'src/version.rs'

LOOP = '''        invariant
            vercmp_loop(version1_part@, version2_part@) == vercmp_loop(version1@, version2@),
            version1@ != version2@,
            decides(not_alphanumeric_tilde_or_caret, 0),
            forall|c: char| #[trigger] not_alphanumeric_tilde_or_caret.requires((c,)),
        ensures
            version1_part@.len() == 0 || version2_part@.len() == 0,
            vercmp_loop(version1@, version2@) == (if version1_part@.len() == 0 && version2_part@.len() == 0 { Ordering::Equal }
                else if version1_part@.len() > 0 { Ordering::Greater } else { Ordering::Less }),
        decreases version1_part@.len() + version2_part@.len(),'''

def mc_rule():
    """closure contracts spliced on the predicates handed to matching_contiguous, BY POSITION: the first two calls
    (the numeric branch) must be handed a predicate that decides "ASCII digit", the next two "ASCII letter" -
    whatever expression the code uses for it (a closure, a function path)."""
    state = {'n': 0}

    def repl(m):
        k = state['n']
        state['n'] += 1
        cls = 'is_digit' if k < 2 else 'is_alpha'
        pred = m.group(2).strip()
        mm = re.match(r'\|(\w+)\|\s*(.*)$', pred, re.S)
        body = ('{ let %s = c; %s }' % (mm.group(1), mm.group(2))) if mm else ('{ %s(c) }' % pred)
        return 'matching_contiguous(%s, |c: char| -> (b: bool) ensures b == %s(c) %s)' % (m.group(1), cls, body)
    return (re.compile(r'matching_contiguous\((\w+),\s*((?:[^()]|\([^()]*\))*)\)'), repl, None, 'closure contract spliced, by call position (digit, digit, letter, letter)')


PARTS = [Prelude('head.rs'), Prelude('vercmp.rs')] + [
    Raw('''
pub assume_specification[ char::is_ascii_alphanumeric ](c: &char) -> (r: bool) ensures r == is_alnum(*c);
pub assume_specification[ char::is_ascii_digit ](c: &char) -> (r: bool) ensures r == is_digit(*c);
pub assume_specification[ char::is_ascii_alphabetic ](c: &char) -> (r: bool) ensures r == is_alpha(*c);
/// the Unicode-aware classes: NOT the ASCII ones (nothing is assumed about them beyond being functions of the character)
pub uninterp spec fn uni_alpha(c: char) -> bool;
pub uninterp spec fn uni_numeric(c: char) -> bool;
pub uninterp spec fn uni_alnum(c: char) -> bool;
pub assume_specification[ char::is_alphabetic ](c: char) -> (r: bool) ensures r == uni_alpha(c);
pub assume_specification[ char::is_numeric ](c: char) -> (r: bool) ensures r == uni_numeric(c);
pub assume_specification[ char::is_alphanumeric ](c: char) -> (r: bool) ensures r == uni_alnum(c);
// ---- A-STR: the str functions used, with their documented meaning ------------------------------------
#[verifier::external_body]
pub fn str_eq(a: &str, b: &str) -> (r: bool) ensures r == (a@ == b@) { a == b }
#[verifier::external_body]
pub fn str_is_empty(s: &str) -> (r: bool) ensures r == (s@.len() == 0) { s.is_empty() }
/// what a character-class closure computes: `cls` 0 = separator, 1 = digit, 2 = alphabetic
pub open spec fn decides<F: Fn(char) -> bool>(f: F, cls: int) -> bool {
    forall|c: char, b: bool| #[trigger] f.ensures((c,), b) ==> b == (if cls == 0 { is_sep(c) } else if cls == 1 { is_digit(c) } else { is_alpha(c) })
}
/// `s.trim_start_matches(pred)`: the text after the longest prefix of characters satisfying pred
#[verifier::external_body]
pub fn trim_start_matches_fn<'a, F: Fn(char) -> bool>(s: &'a str, f: &F) -> (r: &'a str)
    requires forall|c: char| #[trigger] f.requires((c,)),
    ensures decides(*f, 0) ==> r@ == skip_seps(s@),
{ unimplemented!() }
/// `s.trim_start_matches('0')`
#[verifier::external_body]
pub fn trim_start_zeros<'a>(s: &'a str) -> (r: &'a str) ensures r@ == skip_zeros(s@) { s.trim_start_matches('0') }
/// `s.strip_prefix(c)`
#[verifier::external_body]
pub fn strip_prefix_char<'a>(s: &'a str, c: char) -> (r: Option<&'a str>)
    ensures match r { Some(t) => s@.len() > 0 && s@[0] == c && t@ == s@.subrange(1, s@.len() as int), None => s@.len() == 0 || s@[0] != c },
{ s.strip_prefix(c) }
/// `s.starts_with(pred)`
#[verifier::external_body]
pub fn starts_with_fn<F: Fn(char) -> bool>(s: &str, f: F) -> (r: bool)
    requires forall|c: char| #[trigger] f.requires((c,)),
    ensures decides(f, 1) ==> r == (s@.len() > 0 && is_digit(s@[0])),
{ unimplemented!() }
/// the nested helper of compare_version_string (find / split_at / filter; NOT under contract - leaf): the longest
/// non-empty prefix of characters satisfying pat, and the rest
#[verifier::external_body]
pub fn matching_contiguous<'a, F: Fn(char) -> bool>(string: &'a str, pat: F) -> (r: Option<(&'a str, &'a str)>)
    requires forall|c: char| #[trigger] pat.requires((c,)),
    ensures
        decides(pat, 1) ==> run_split(string@, r, true),
        decides(pat, 2) ==> run_split(string@, r, false),
{ unimplemented!() }
pub open spec fn run_split(s: Seq<char>, r: Option<(&str, &str)>, digits: bool) -> bool {
    let n = run_len(s, digits);
    match r {
        Some((p, rest)) => n > 0 && p@ == s.subrange(0, n) && rest@ == s.subrange(n, s.len() as int),
        None => n == 0,
    }
}
/// byte length against byte length; for the texts compared here (digit runs: ASCII; leftovers: only emptiness matters)
pub uninterp spec fn byte_len(s: Seq<char>) -> int;
#[verifier::external_body]
pub proof fn axiom_byte_len(s: Seq<char>)
    ensures byte_len(s) >= s.len(), (forall|j: int| 0 <= j < s.len() ==> (#[trigger] s[j] as u32) < 128) ==> byte_len(s) == s.len(), s.len() == 0 ==> byte_len(s) == 0,
{}
#[verifier::external_body]
pub fn cmp_len(a: &str, b: &str) -> (r: Ordering) ensures r == int_cmp(byte_len(a@), byte_len(b@)) { a.len().cmp(&b.len()) }
/// `a.cmp(b)` on str: lexicographic by bytes = by code points
#[verifier::external_body]
pub fn str_cmp(a: &str, b: &str) -> (r: Ordering) ensures r == lex_cmp(a@, b@) { a.cmp(b) }
#[verifier::external_body]
pub fn ord_ne(a: Ordering, b: Ordering) -> (r: bool) ensures r == (a != b) { a != b }
'''),
    Raw('''
/// leading zeros stripped from a run of digits: still ASCII, so its byte length is its length
pub proof fn lemma_digits_len(s: Seq<char>)
    requires forall|j: int| 0 <= j < s.len() ==> is_digit(#[trigger] s[j]),
    ensures byte_len(skip_zeros(s)) == skip_zeros(s).len(), forall|j: int| 0 <= j < skip_zeros(s).len() ==> is_digit(#[trigger] skip_zeros(s)[j]),
    decreases s.len(),
{
    if s.len() > 0 && s[0] == '0' {
        let t = s.subrange(1, s.len() as int);
        assert forall|j: int| 0 <= j < t.len() implies is_digit(#[trigger] t[j]) by { assert(t[j] == s[j + 1]); }
        lemma_digits_len(t);
    } else {
        axiom_byte_len(s);
    }
}
'''),
    Fn(VER, 'compare_version_string',
       subs=[
             (re.compile(r'[ \t]*fn matching_contiguous<F>\(string: &str, pat: F\) -> Option<\(&str, &str\)>\s*where\s*F: Fn\(char\) -> bool,\s*\{.*?\n        \}\n', re.S), '', 1,
              'R39-nested helper fn moved out of the body: declared with its contract (leaf, not verified)'),
             ret(),
             ('if version1 == version2 {', 'if str_eq(version1, version2) {', 1, 'R11-&str comparison'),
             (re.compile(r'let not_alphanumeric_tilde_or_caret =\s*\|c: char\| (!c\.is_ascii_alphanumeric\(\) && c != \'~\' && c != \'\^\');'),
              r"let not_alphanumeric_tilde_or_caret = |c: char| -> (b: bool) ensures b == is_sep(c) { \1 };", 1, 'closure contract spliced'),
             (re.compile(r'\b(\w+)\.trim_start_matches\(not_alphanumeric_tilde_or_caret\)'), r'trim_start_matches_fn(\1, &not_alphanumeric_tilde_or_caret)', None, 'R32-str::trim_start_matches(closure)'),
             (re.compile(r"\b(\w+)\.strip_prefix\(('[~^]')\)"), r'strip_prefix_char(\1, \2)', None, 'R32-str::strip_prefix(char)'),
             (re.compile(r'\b(\w+)\.is_empty\(\)'), r'str_is_empty(\1)', None, 'R32-str::is_empty'),
             (re.compile(r'\b(\w+)\.starts_with\(\|c: char\| c\.is_ascii_digit\(\)\)'), r'starts_with_fn(\1, |c: char| -> (b: bool) ensures b == is_digit(c) { c.is_ascii_digit() })', 1, 'R32 + closure contract spliced'),
             mc_rule(),
             (re.compile(r"\b(\w+)\.trim_start_matches\('0'\)"), r'trim_start_zeros(\1)', None, 'R32-str::trim_start_matches(char)'),
             (re.compile(r'\b(\w+)\.len\(\)\.cmp\(&(\w+)\.len\(\)\)'), r'cmp_len(\1, \2)', None, 'R32-byte lengths compared'),
             (re.compile(r'\b(prefix1)\.cmp\((prefix2)\)'), r'str_cmp(\1, \2)', None, 'R32-str::cmp'),
             (re.compile(r'(\w+) != Ordering::Equal'), r'ord_ne(\1, Ordering::Equal)', None, 'R11-Ordering-comparison'),
             ],
       spec='    ensures r == rpmvercmp(version1@, version2@),',
       loops={0: LOOP},
       before=[('        version1_part = version1_part.trim_start_matches(not_alphanumeric_tilde_or_caret);', 'let ghost a0 = version1_part@; let ghost b0 = version2_part@;\n'),
               ('    version1_part.len().cmp(&version2_part.len())\n}', 'proof { axiom_byte_len(version1_part@); axiom_byte_len(version2_part@); }\n')],
       after=[('version2_part = version2_part.trim_start_matches(not_alphanumeric_tilde_or_caret);', '''
        proof {
            lemma_loop_skip(a0, b0); lemma_skip_seps(a0); lemma_skip_seps(b0);
            lemma_run_len(version1_part@, true); lemma_run_len(version2_part@, true);
            lemma_run_len(version1_part@, false); lemma_run_len(version2_part@, false);
            lemma_digits_len(version1_part@.subrange(0, run_len(version1_part@, true)));
            lemma_digits_len(version2_part@.subrange(0, run_len(version2_part@, true)));
        }''')],
       ),
    Raw('''
/// sanity of the transcription: rpm's documented examples, evaluated on the specification
pub proof fn spec_examples()
{
    reveal_with_fuel(vercmp_loop, 3); reveal_with_fuel(skip_seps, 3); reveal_with_fuel(run_len, 3); reveal_with_fuel(skip_zeros, 3); reveal_with_fuel(lex_cmp, 3);
    let one = seq!['1']; let two = seq!['2']; let a = seq!['a']; let t1 = seq!['1', '~'];
    assert(one[0] == '1' && two[0] == '2' && a[0] == 'a' && t1[0] == '1' && t1[1] == '~');
    // "1" < "2"
    assert(one.subrange(0, 1) =~= one && two.subrange(0, 1) =~= two);
    assert(rpmvercmp(one, two) == Ordering::Less);
    // "a" < "1": a numeric segment is newer than an alphabetic one
    assert(rpmvercmp(a, one) == Ordering::Less);
    // "1" > "1~": the tilde sorts before the end of the string
    assert(one.subrange(1, 1) =~= Seq::<char>::empty());
    assert(t1.subrange(0, 1) =~= one);
    assert(t1.subrange(1, 2) =~= seq!['~']);
    assert(seq!['~'][0] == '~');
    assert(rpmvercmp(one, t1) == Ordering::Greater);
}
// vacuity canary: must FAIL
pub fn canary_c13(a: &str, b: &str)
{
    let r = compare_version_string(a, b);
    assert(r == Ordering::Equal);
}
'''),
] + TAIL

OBLIGATIONS = {'compare_version_string': ['C13'], 'spec_examples': ['C13'], 'lemma_loop_refl': ['C13'], 'lemma_loop_trans': ['C13'], 'lemma_seg_trans': ['C13'], 'lemma_lex_trans': ['C13'], 'lemma_rpmvercmp_total_preorder': ['C13'], 'lemma_loop_rev': ['C13'], 'lemma_rpmvercmp_laws': ['C13'], 'lemma_lex_rev': ['C13'], 'lemma_seg_rev': ['C13'], 'lemma_skip_seps': ['C13'], 'lemma_run_len': ['C13'], 'lemma_loop_skip': ['C13'], 'lemma_digits_len': ['C13']}
CANARIES = ['canary_c13']
