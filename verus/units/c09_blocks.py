"""Block contracts inside PackageBuilder::prepare_data for C09 / C07:
B2: the rpmlib() requirements declared per feature used;
B3: the per-file statement that records whether any file carries capabilities;
B4: the large-file (stripped cpio) branch emits header, content and 4-byte alignment padding."""
import re
from vunit import Raw, Prelude, Fn, Decl, Block
from common import *

NAME = 'c09_blocks'
BUILDER = 'src/rpm/builder.rs'
COMP = 'src/rpm/compressor.rs'

PARTS = [Prelude('head.rs'), Prelude('serspec.rs')] + io_head() + [
    Decl(COMP, 'enum', 'CompressionType', subs=[(re.compile(r'[ \t]*#\[default\]\s*\n'), '', None, 'R1-attr')]),
    Decl(COMP, 'enum', 'CompressionWithLevel'),
    Raw('impl CompressionWithLevel {\n'),
    Fn(COMP, 'compression_type', impl='impl CompressionWithLevel', subs=[ret()],
       spec='''    ensures (r is Zstd) == (*self is Zstd), (r is Gzip) == (*self is Gzip), (r is Xz) == (*self is Xz),
        (r is Bzip2) == (*self is Bzip2), (r is None) == (*self is None),'''),
    Raw('''}
/// R11: `a == CompressionType::X`
#[verifier::external_body]
pub fn ctype_eq(a: CompressionType, b: CompressionType) -> (r: bool)
    ensures r == ((a is None && b is None) || (a is Gzip && b is Gzip) || (a is Zstd && b is Zstd) || (a is Xz && b is Xz) || (a is Bzip2 && b is Bzip2)),
{ unimplemented!() }
/// R5: a dependency as the pair of texts rpm cares about here
pub trait StrLike { spec fn text(&self) -> Seq<char>; }
impl StrLike for &str { open spec fn text(&self) -> Seq<char> { self@ } }
impl StrLike for String { open spec fn text(&self) -> Seq<char> { self@ } }
pub struct Dependency { pub feature: Ghost<Seq<char>>, pub version: Ghost<Seq<char>>, pub is_rpmlib: Ghost<bool> }
impl Dependency {
    /// `Dependency::rpmlib(name, version)` = requirement `rpmlib(name) = version` with the RPMLIB flag
    #[verifier::external_body]
    pub fn rpmlib<A: StrLike, B: StrLike>(dep_name: A, version: B) -> (r: Dependency)
        ensures r.feature@ == dep_name.text(), r.version@ == version.text(), r.is_rpmlib@,
    { unimplemented!() }
}
#[verifier::external_body]
pub fn str_to_owned(s: &str) -> (r: String) ensures r@ == s@ { s.to_owned() }
pub struct PackageBuilder { pub requires: Vec<Dependency>, pub compression: CompressionWithLevel }
pub open spec fn is_lib(d: Dependency, f: Seq<char>, v: Seq<char>) -> bool { d.is_rpmlib@ && d.feature@ == f && d.version@ == v }
/// rpmlib() features and the rpm version that introduced them (rpm: lib/rpmds.c rpmlibProvides)
pub open spec fn rpmlib_ok(old_r: Seq<Dependency>, new_r: Seq<Dependency>, zstd: bool, caps: bool, large: bool) -> bool {
    let n = old_r.len() as int;
    let k1 = n + 3;
    let k2 = k1 + (if zstd { 1int } else { 0int });
    let k3 = k2 + (if caps { 1int } else { 0int });
    &&& new_r.len() == k3 + (if large { 1int } else { 0int })
    &&& new_r.subrange(0, n) == old_r
    &&& is_lib(new_r[n], "CompressedFileNames"@, "3.0.4-1"@)
    &&& is_lib(new_r[n + 1], "FileDigests"@, "4.6.0-1"@)
    &&& is_lib(new_r[n + 2], "PayloadFilesHavePrefix"@, "4.0-1"@)
    &&& (zstd ==> is_lib(new_r[k1], "PayloadIsZstd"@, "5.4.18-1"@))
    &&& (caps ==> is_lib(new_r[k2], "FileCaps"@, "4.6.1-1"@))
    &&& (large ==> is_lib(new_r[k3], "LargeFiles"@, "4.12.0-1"@))
}
impl PackageBuilder {
'''),
    Block(BUILDER, 'prepare_data', impl='impl PackageBuilder', exclusive=True,
          start='            self.version.clone(),\n        ));\n',
          end='        // TODO: as per https://rpm-software-management.github.io/rpm/manual/users_and_groups.html',
          subs=[(re.compile(r'self\.compression\.compression_type\(\) == CompressionType::Zstd'), 'ctype_eq(self.compression.compression_type(), CompressionType::Zstd)', None, 'R11-enum-comparison'),
                (re.compile(r'"([^"]*)"\.to_owned\(\)'), r'str_to_owned("\1")', None, 'R12-to_owned')],
          header='''    /// B2 - free variables: self.requires, self.compression, uses_file_capabilities, uses_large_files
    pub fn b2_rpmlib(&mut self, uses_file_capabilities: bool, uses_large_files: bool)
        ensures
            rpmlib_ok(old(self).requires@, final(self).requires@, old(self).compression is Zstd, uses_file_capabilities, uses_large_files),
            final(self).compression == old(self).compression,''',
          tail='''
        proof { assert(self.requires@.subrange(0, old(self).requires@.len() as int) =~= old(self).requires@); }'''),
    Raw('''}
/// R5: the part of PackageFileEntry the block reads
pub struct FileCaps { pub text: String }
pub struct PackageFileEntry { pub caps: Option<FileCaps>, pub user: String, pub group: String }
'''),
    Block(BUILDER, 'prepare_data', impl='impl PackageBuilder', exclusive=True,
          start='for (file_index, (cpio_path, entry)) in self.files.iter().enumerate() {\n',
          end='            if &entry.user != "root" {',
          header='''/// B3 - free variables: entry, uses_file_capabilities.  The flag must ACCUMULATE over the files.
pub fn b3_caps_flag(entry: &PackageFileEntry, uses0: bool) -> (r: bool)
    ensures r == (uses0 || entry.caps is Some),''',
          before=[],
          tail='''
            uses_file_capabilities''',
          subs=[(re.compile(r'\A'), '            let mut uses_file_capabilities = uses0;\n', 1, 'block prologue: bind the free variable')]),
    Raw('''
pub mod payload {
    use super::*;
    /// K:k_stripped_header on the real function: 16 bytes ("07070X" + 8 hex digits + 2 NUL)
    #[verifier::external_body]
    pub fn stripped_cpio_header(file_index: u32) -> (r: Vec<u8>) ensures r@.len() == 16 { unimplemented!() }
    /// V:c07_payload:pad
    #[verifier::external_body]
    pub fn pad(len: usize) -> (r: Option<Vec<u8>>)
        ensures match r { Some(v) => v@ == zeros(padlen(len as int)) && padlen(len as int) > 0, None => padlen(len as int) == 0 },
    { unimplemented!() }
}
pub open spec fn padlen(len: int) -> int { (4 - len % 4) % 4 }
'''),
    Block(BUILDER, 'prepare_data', impl='impl PackageBuilder', exclusive=True,
          start='                writer.finish()?;\n            } else {\n',
          end='            };\n\n            ino_index += 1;',
          header='''/// B4 - free variables: archive (any sink), file_index, content.  A stripped entry is the 16-byte
/// header, the file data and NUL padding to a multiple of 4 bytes (what Reader::finish skips).
pub fn b4_large_file_entry<W: VWrite>(archive: &mut W, file_index: usize, content: Vec<u8>) -> (r: Result<(), Error>)
    ensures r is Ok ==> exists|hdr: Seq<u8>| hdr.len() == 16 && #[trigger] (old(archive).sunk() + hdr + content@ + zeros(padlen(content@.len() as int))) == final(archive).sunk(),''',
          tail='''
                proof {
                    assert(zeros(0) =~= Seq::<u8>::empty());
                    assert(old(archive).sunk() + header@ + content@ + zeros(padlen(content@.len() as int)) =~= archive.sunk());
                }
                Ok(())'''),
    Raw('''
/// R5: header records as (tag, text) pairs - all this block produces
pub struct IndexEntry { pub tag: Ghost<u32>, pub text: Ghost<Seq<char>> }
pub enum IndexData { StringTag(String) }
#[derive(Clone, Copy)]
pub enum IndexTag { RPMTAG_PAYLOADCOMPRESSOR, RPMTAG_PAYLOADFLAGS }
pub open spec fn tag_no(t: IndexTag) -> u32 { match t { IndexTag::RPMTAG_PAYLOADCOMPRESSOR => 1125, IndexTag::RPMTAG_PAYLOADFLAGS => 1126 } }
impl IndexEntry {
    #[verifier::external_body]
    pub fn new(tag: IndexTag, offset: i32, data: IndexData) -> (r: IndexEntry)
        ensures r.tag@ == tag_no(tag), r.text@ == data->StringTag_0@,
    { unimplemented!() }
}
/// decimal text of an integer (`ToString`), uninterpreted
pub uninterp spec fn dec_u32(x: u32) -> Seq<char>;
pub uninterp spec fn dec_i32(x: i32) -> Seq<char>;
pub trait VToString { spec fn dec(&self) -> Seq<char>; fn to_string_v(&self) -> (r: String) ensures r@ == self.dec(); }
impl VToString for u32 { open spec fn dec(&self) -> Seq<char> { dec_u32(*self) } #[verifier::external_body] fn to_string_v(&self) -> (r: String) { unimplemented!() } }
impl VToString for i32 { open spec fn dec(&self) -> Seq<char> { dec_i32(*self) } #[verifier::external_body] fn to_string_v(&self) -> (r: String) { unimplemented!() } }
/// the payload compressor name rpm expects for each algorithm (what CompressionType::from_str parses)
pub open spec fn comp_name(c: CompressionWithLevel) -> Seq<char> {
    match c {
        CompressionWithLevel::None => Seq::<char>::empty(),
        CompressionWithLevel::Gzip(_) => "gzip"@,
        CompressionWithLevel::Zstd(_) => "zstd"@,
        CompressionWithLevel::Xz(_) => "xz"@,
        CompressionWithLevel::Bzip2(_) => "bzip2"@,
    }
}
pub open spec fn comp_level(c: CompressionWithLevel) -> Seq<char> {
    match c {
        CompressionWithLevel::None => Seq::<char>::empty(),
        CompressionWithLevel::Gzip(l) => dec_u32(l),
        CompressionWithLevel::Zstd(l) => dec_i32(l),
        CompressionWithLevel::Xz(l) => dec_u32(l),
        CompressionWithLevel::Bzip2(l) => dec_u32(l),
    }
}
pub struct PackageBuilder5 { pub compression: CompressionWithLevel }
impl PackageBuilder5 {
'''),
    Block(BUILDER, 'prepare_data', impl='impl PackageBuilder', exclusive=True,
          start='                IndexData::StringArray(vec![raw_archive_digest_sha256]),\n            ),\n        ]);\n',
          end='        if !self.changelog_names.is_empty() {',
          subs=[(re.compile(r'"([^"]*)"\.to_owned\(\)'), r'str_to_owned("\1")', None, 'R12-to_owned'),
                ('level.to_string()', 'level.to_string_v()', None, 'R12-ToString on integers'),
                (re.compile(r'\A'), '        let mut actual_records = records;\n', 1, 'block prologue: bind the free variable')],
          header='''    /// B5 - free variables: self.compression, offset, actual_records.  The header names the algorithm
    /// the compressor was built for (PAYLOADCOMPRESSOR) and its level (PAYLOADFLAGS); nothing for None.
    pub fn b5_compressor_records(&self, offset: i32, records: Vec<IndexEntry>) -> (r: Vec<IndexEntry>)
        ensures ({
            let n = records@.len() as int;
            &&& r@.subrange(0, n) == records@
            &&& (self.compression is None ==> r@.len() == n)
            &&& (!(self.compression is None) ==> {
                    &&& r@.len() == n + 2
                    &&& r@[n].tag@ == 1125 && r@[n].text@ == comp_name(self.compression)
                    &&& r@[n + 1].tag@ == 1126 && r@[n + 1].text@ == comp_level(self.compression)
                })
        }),''',
          tail='''
        proof { assert(actual_records@.subrange(0, records@.len() as int) =~= records@); }
        actual_records'''),
    Raw('''}
// vacuity canaries: must FAIL
pub fn canary_b2(b: &mut PackageBuilder)
{
    b.b2_rpmlib(true, false);
    assert(false);
}
pub fn canary_b4<W: VWrite>(a: &mut W, c: Vec<u8>)
{
    let r = b4_large_file_entry(a, 0, c);
    assert(r is Err);
}
'''),
] + TAIL

OBLIGATIONS = {'PackageBuilder::b2_rpmlib': ['C09'], 'CompressionWithLevel::compression_type': ['C09'],
               'b3_caps_flag': ['C09'], 'b4_large_file_entry': ['C09', 'C07'], 'PackageBuilder5::b5_compressor_records': ['C09']}
CANARIES = ['canary_b2', 'canary_b4']
