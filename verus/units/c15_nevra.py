"""C15 (EVR / NEVRA sentences): formatting an EVR or a NEVRA and parsing the text again gives back
identical components, for all component values a real package can carry (name: anything, may contain
'-', '.', ':'; epoch: no '-', no ':'; version: no '-', no ':'; release: no '-', no ':'; arch: no '-',
no '.'); the normalised form always carries an epoch; parsing arbitrary text never panics.

Verbatim bodies of Evr::parse_values, Nevra::parse_values, the two Display impls and the two
as_normalized_form functions.  `str::split_once(char)` / `rsplit_once(char)` are assumed with their
documented meaning (first / last occurrence), `write!` / `format!` with literal pieces as concatenation."""
import re
from vunit import Raw, Prelude, Fn, Decl
from common import *

NAME = 'c15_nevra'
VER = 'src/version.rs'
COW = (re.compile(r"Cow<'a, str>"), 'String', None, "R5-Cow<'a,str> fields as String (only their text is used)")
LT = (re.compile(r"<'a>"), '', None, 'R5-lifetime-parameter')
LT2 = (re.compile(r"Evr<'a>"), 'Evr', None, 'R5-lifetime-parameter')
SPLIT = (re.compile(r"\b(\w+)\.split_once\(('(?:[^'\\]|\\.)')\)"), r'split_once_char(\1, \2)', None, 'R28-str::split_once(char)')
RSPLIT = (re.compile(r"\b(\w+)\.rsplit_once\(('(?:[^'\\]|\\.)')\)"), r'rsplit_once_char(\1, \2)', None, 'R28-str::rsplit_once(char)')
EMPTY = (re.compile(r'""'), 'empty_str()', None, 'R28-the empty string literal')
_CH = r"('(?:[^'\\]|\\.)')"
STRIDX = [
    (re.compile(r"\b(\w+)\.find\(" + _CH + r"\)"), r'str_find_char(\1, \2)', None, 'R47-str::find(char): byte offset of the first occurrence'),
    (re.compile(r"\b(\w+)\.rfind\(" + _CH + r"\)"), r'str_rfind_char(\1, \2)', None, 'R47-str::rfind(char): byte offset of the last occurrence'),
    (re.compile(r"\b(\w+)\.chars\(\)\.position\(\|(\w+)\| \2 == " + _CH + r"\)"), r'chars_position(\1, \3)', None, 'R47-chars().position(): a CHARACTER index'),
    (re.compile(r"&(\w+)\[\.\.(\w+(?: [+-] \d+)?)\]"), r'str_slice_to(\1, \2)', None, 'R47-slicing a str by byte offset: must be a character boundary'),
    (re.compile(r"&(\w+)\[(\w+(?: [+-] \d+)?)\.\.\]"), r'str_slice_from(\1, \2)', None, 'R47-slicing a str by byte offset: must be a character boundary'),
]


def write_rule():
    """R29: `write!(f, "<lit0>{}<lit1>{}..", a, b, ..)` -> `f.w_str("<lit0>")?; f.w(&a)?; f.w_str("<lit1>")?; ..; Ok(())`
    is NOT what is generated - core::fmt writes the pieces in order and stops at the first error; the
    stand-in formatter below cannot fail, so the rewrite is the plain sequence of pieces."""
    def repl(m):
        fmt = m.group(2)
        args = [a.strip() for a in m.group(3).split(',') if a.strip()]
        pieces = fmt.split('{}')
        if len(pieces) != len(args) + 1:
            return m.group(0)
        out = []
        for k, lit in enumerate(pieces):
            if lit:
                out.append('%s.w_str("%s");' % (m.group(1), lit))
            if k < len(args):
                out.append('%s.w(&%s);' % (m.group(1), args[k]))
        q = '?' if m.group(4) == '?' else ''
        return '{ ' + ' '.join(out) + ' vfmt_ok() }' + q
    return (re.compile(r'write!\(\s*(\w+),\s*"([^"]*)"\s*,([^;]*?)\)(\??)', re.S), repl, None, 'R29-write! with literal pieces as a sequence of writes')


def format_rule():
    def repl(m):
        fmt = m.group(1)
        args = [a.strip() for a in m.group(2).split(',') if a.strip()]
        pieces = fmt.split('{}')
        if len(pieces) != len(args) + 1:
            return m.group(0)
        out = ['let mut __f = VFormatter::new();']
        for k, lit in enumerate(pieces):
            if lit:
                out.append('__f.w_str("%s");' % lit)
            if k < len(args):
                out.append('__f.w(&%s);' % args[k])
        return '{ ' + ' '.join(out) + ' __f.finish() }'
    return (re.compile(r'format!\(\s*"([^"]*)"\s*,([^;]*?)\)(?=\s*\n\s*\})', re.S), repl, None, 'R29-format! with literal pieces as a sequence of writes')


PARTS = [Prelude('head.rs'), Prelude('stdspecs2.rs')] + [
    Decl(VER, 'struct', 'Evr', subs=[COW, LT]),
    Decl(VER, 'struct', 'Nevra', subs=[COW, LT2, LT]),
    Raw('''
// ---- A-STR: documented meaning of str::split_once / rsplit_once with a char pattern -------------
pub open spec fn occurs(s: Seq<char>, c: char) -> bool { exists|i: int| 0 <= i < s.len() && s[i] == c }
/// R28: `s.split_once(c)`: None iff c does not occur; else the text before the FIRST c and the text after it
#[verifier::external_body]
pub fn split_once_char<'a>(s: &'a str, c: char) -> (r: Option<(&'a str, &'a str)>)
    ensures match r {
        None => !occurs(s@, c),
        Some((a, b)) => s@ == a@ + seq![c] + b@ && !occurs(a@, c),
    },
{ s.split_once(c) }
/// R28: `s.rsplit_once(c)`: None iff c does not occur; else the text before the LAST c and the text after it
#[verifier::external_body]
pub fn rsplit_once_char<'a>(s: &'a str, c: char) -> (r: Option<(&'a str, &'a str)>)
    ensures match r {
        None => !occurs(s@, c),
        Some((a, b)) => s@ == a@ + seq![c] + b@ && !occurs(b@, c),
    },
{ s.rsplit_once(c) }
// ---- R47: byte offsets into a str -----------------------------------------------------------------
/// slicing a `str` at byte offset n panics unless n is a character boundary; what the two parts are is a function of
/// the text and the offset (all three uninterpreted: nothing is assumed about UTF-8 beyond what the helpers state)
pub uninterp spec fn char_boundary(s: Seq<char>, n: int) -> bool;
pub uninterp spec fn cut_to(s: Seq<char>, n: int) -> Seq<char>;
pub uninterp spec fn cut_from(s: Seq<char>, n: int) -> Seq<char>;
#[verifier::external_body]
pub fn str_slice_to<'a>(s: &'a str, n: usize) -> (r: &'a str)
    requires char_boundary(s@, n as int),
    ensures r@ == cut_to(s@, n as int),
{ &s[..n] }
#[verifier::external_body]
pub fn str_slice_from<'a>(s: &'a str, n: usize) -> (r: &'a str)
    requires char_boundary(s@, n as int),
    ensures r@ == cut_from(s@, n as int),
{ &s[n..] }
/// `s.find(c)` / `s.rfind(c)` for an ASCII character c (one byte): the BYTE offset of its first / last occurrence; both
/// that offset and the one after it are boundaries, and cutting there gives the text before and the text after
#[verifier::external_body]
pub fn str_find_char(s: &str, c: char) -> (r: Option<usize>)
    requires (c as u32) < 128,
    ensures match r {
        None => !occurs(s@, c),
        Some(b) => b < usize::MAX && char_boundary(s@, b as int) && char_boundary(s@, b + 1)
            && s@ == cut_to(s@, b as int) + seq![c] + cut_from(s@, b + 1) && !occurs(cut_to(s@, b as int), c),
    },
{ s.find(c) }
#[verifier::external_body]
pub fn str_rfind_char(s: &str, c: char) -> (r: Option<usize>)
    requires (c as u32) < 128,
    ensures match r {
        None => !occurs(s@, c),
        Some(b) => b < usize::MAX && char_boundary(s@, b as int) && char_boundary(s@, b + 1)
            && s@ == cut_to(s@, b as int) + seq![c] + cut_from(s@, b + 1) && !occurs(cut_from(s@, b + 1), c),
    },
{ s.rfind(c) }
/// `s.chars().position(|x| x == c)`: the CHARACTER index of the first occurrence - not a byte offset
#[verifier::external_body]
pub fn chars_position(s: &str, c: char) -> (r: Option<usize>)
    ensures match r {
        None => !occurs(s@, c),
        Some(k) => k < usize::MAX && k < s@.len() && s@[k as int] == c && !occurs(s@.subrange(0, k as int), c),
    },
{ s.chars().position(|x| x == c) }
#[verifier::external_body]
pub fn empty_str() -> (r: &'static str) ensures r@ == Seq::<char>::empty() { "" }

// ---- R29: core::fmt as concatenation: a formatter that appends text and cannot fail ------------
pub struct VFmtError;
pub type VFmtResult = Result<(), VFmtError>;
pub fn vfmt_ok() -> (r: VFmtResult) ensures r is Ok { Ok(()) }
pub trait VDisplay {
    spec fn text(&self) -> Seq<char>;
    fn vfmt(&self, f: &mut VFormatter) -> (r: VFmtResult)
        ensures r is Ok, final(f).out@ =~= old(f).out@ + self.text();
}
pub struct VFormatter { pub out: Ghost<Seq<char>> }
impl VFormatter {
    pub fn new() -> (r: VFormatter) ensures r.out@ == Seq::<char>::empty() { VFormatter { out: Ghost(Seq::empty()) } }
    #[verifier::external_body]
    pub fn w_str(&mut self, s: &str) ensures final(self).out@ == old(self).out@ + s@ { unimplemented!() }
    pub fn w<T: VDisplay>(&mut self, x: &T) ensures final(self).out@ == old(self).out@ + x.text() { let _ = x.vfmt(self); }
    #[verifier::external_body]
    pub fn finish(self) -> (r: String) ensures r@ == self.out@ { unimplemented!() }
}
impl VDisplay for String {
    open spec fn text(&self) -> Seq<char> { self@ }
    #[verifier::external_body]
    fn vfmt(&self, f: &mut VFormatter) -> (r: VFmtResult) { unimplemented!() }
}
impl VDisplay for &str {
    open spec fn text(&self) -> Seq<char> { self@ }
    #[verifier::external_body]
    fn vfmt(&self, f: &mut VFormatter) -> (r: VFmtResult) { unimplemented!() }
}
/// R5: `x.into()` from &str into the Cow<str> field (modelled as String): same text
#[verifier::external_body]
pub fn cow_from(s: &str) -> (r: String) ensures r@ == s@ { s.to_string() }
/// R11: `a == "lit"` on &str
#[verifier::external_body]
pub fn str_eq(a: &str, b: &str) -> (r: bool) ensures r == (a@ == b@) { a == b }
#[verifier::external_body]
pub fn str_is_empty(s: &String) -> (r: bool) ensures r == (s@.len() == 0) { s.is_empty() }

// ---- C15, written from the statement -------------------------------------------------------------
pub open spec fn colon() -> Seq<char> { seq![':'] }
pub open spec fn dash() -> Seq<char> { seq!['-'] }
pub open spec fn dot() -> Seq<char> { seq!['.'] }
/// the textual form of an EVR: "[epoch:]version-release"
pub open spec fn evr_text(e: Seq<char>, v: Seq<char>, r: Seq<char>) -> Seq<char> {
    ep(e) + v + dash() + r
}
/// the optional "epoch:" prefix
pub open spec fn ep(e: Seq<char>) -> Seq<char> { if e.len() == 0 { Seq::<char>::empty() } else { e + colon() } }
/// the textual form of a NEVRA: "name-[epoch:]version-release.arch"
pub open spec fn nevra_text(n: Seq<char>, e: Seq<char>, v: Seq<char>, r: Seq<char>, a: Seq<char>) -> Seq<char> {
    n + dash() + evr_text(e, v, r) + dot() + a
}
/// component values a real package can carry (rpm forbids '-' and ':' in epoch, version and release,
/// and an architecture has neither '-' nor '.'); the NAME is unrestricted
pub open spec fn evr_wf(e: Seq<char>, v: Seq<char>, r: Seq<char>) -> bool {
    &&& !occurs(e, '-') && !occurs(e, ':')
    &&& !occurs(v, '-') && !occurs(v, ':')
    &&& !occurs(r, '-') && !occurs(r, ':')
}
pub open spec fn arch_wf(a: Seq<char>) -> bool { !occurs(a, '-') && !occurs(a, '.') }

// ---- lemmas about occurrences in concatenations --------------------------------------------------
pub proof fn lemma_has_concat(a: Seq<char>, b: Seq<char>, c: char)
    ensures occurs(a + b, c) == (occurs(a, c) || occurs(b, c)),
{
    if occurs(a, c) { let i = choose|i: int| 0 <= i < a.len() && a[i] == c; assert((a + b)[i] == c); }
    if occurs(b, c) { let i = choose|i: int| 0 <= i < b.len() && b[i] == c; assert((a + b)[a.len() + i] == c); }
    if occurs(a + b, c) {
        let i = choose|i: int| 0 <= i < (a + b).len() && (a + b)[i] == c;
        if i < a.len() { assert(a[i] == c); } else { assert(b[i - a.len()] == c); }
    }
}
pub proof fn lemma_has_single(x: char, c: char)
    ensures occurs(seq![x], c) == (x == c),
{
    if x == c { assert(seq![x][0] == c); }
}
pub proof fn lemma_mid_occurs(a: Seq<char>, b: Seq<char>, c: char)
    ensures occurs(a + seq![c] + b, c),
{
    assert((a + seq![c] + b)[a.len() as int] == c);
}
/// a text splits in exactly one way at the FIRST occurrence of c
pub proof fn lemma_first_split_unique(a1: Seq<char>, b1: Seq<char>, a2: Seq<char>, b2: Seq<char>, c: char)
    requires a1 + seq![c] + b1 == a2 + seq![c] + b2, !occurs(a1, c), !occurs(a2, c),
    ensures a1 == a2, b1 == b2,
{
    let s1 = a1 + seq![c] + b1;
    let s2 = a2 + seq![c] + b2;
    if a1.len() < a2.len() { assert(s1[a1.len() as int] == c); assert(s2[a1.len() as int] == a2[a1.len() as int]); assert(false); }
    if a2.len() < a1.len() { assert(s2[a2.len() as int] == c); assert(s1[a2.len() as int] == a1[a2.len() as int]); assert(false); }
    assert(a1 =~= a2) by { assert forall|i: int| 0 <= i < a1.len() implies a1[i] == a2[i] by { assert(s1[i] == a1[i]); assert(s2[i] == a2[i]); } }
    assert(b1 =~= b2) by {
        assert(s1.len() == s2.len());
        assert forall|i: int| 0 <= i < b1.len() implies b1[i] == b2[i] by { assert(s1[a1.len() + 1 + i] == b1[i]); assert(s2[a2.len() + 1 + i] == b2[i]); }
    }
}
/// ... and in exactly one way at the LAST occurrence of c
pub proof fn lemma_last_split_unique(a1: Seq<char>, b1: Seq<char>, a2: Seq<char>, b2: Seq<char>, c: char)
    requires a1 + seq![c] + b1 == a2 + seq![c] + b2, !occurs(b1, c), !occurs(b2, c),
    ensures a1 == a2, b1 == b2,
{
    let s1 = a1 + seq![c] + b1;
    let s2 = a2 + seq![c] + b2;
    assert(s1.len() == s2.len());
    if b1.len() < b2.len() {
        // the c of the first split lies inside b2
        let k = a1.len() as int;
        assert(s1[k] == c);
        assert(s2[k] == b2[k - a2.len() - 1]);
        assert(false);
    }
    if b2.len() < b1.len() {
        let k = a2.len() as int;
        assert(s2[k] == c);
        assert(s1[k] == b1[k - a1.len() - 1]);
        assert(false);
    }
    assert(a1 =~= a2) by { assert forall|i: int| 0 <= i < a1.len() implies a1[i] == a2[i] by { assert(s1[i] == a1[i]); assert(s2[i] == a2[i]); } }
    assert(b1 =~= b2) by {
        assert forall|i: int| 0 <= i < b1.len() implies b1[i] == b2[i] by { assert(s1[a1.len() + 1 + i] == b1[i]); assert(s2[a2.len() + 1 + i] == b2[i]); }
    }
}

/// where ':' and '-' occur in the textual form of a well-formed EVR
pub proof fn lemma_evr_text_splits(e: Seq<char>, v: Seq<char>, r: Seq<char>)
    requires evr_wf(e, v, r),
    ensures
        !occurs(v + dash() + r, ':'),
        occurs(v + dash() + r, '-'),
        e.len() > 0 ==> occurs(e + seq![':'] + (v + dash() + r), ':'),
{
    lemma_has_concat(v, dash(), ':'); lemma_has_concat(v + dash(), r, ':'); lemma_has_single('-', ':');
    lemma_has_concat(v, dash(), '-'); lemma_has_concat(v + dash(), r, '-'); lemma_has_single('-', '-');
    lemma_has_concat(e, seq![':'], ':'); lemma_has_concat(e + seq![':'], v + dash() + r, ':'); lemma_has_single(':', ':');
}
/// where '-' and '.' occur in the textual form of a well-formed NEVRA (whatever the name is)
pub proof fn lemma_nevra_text_splits(n: Seq<char>, e: Seq<char>, v: Seq<char>, r: Seq<char>, a: Seq<char>)
    requires evr_wf(e, v, r), arch_wf(a),
    ensures
        nevra_text(n, e, v, r, a) == (n + dash() + (ep(e) + v)) + seq!['-'] + (r + dot() + a),
        !occurs(r + dot() + a, '-'),
        !occurs(ep(e) + v, '-'),
        !occurs(a, '.'),
        e.len() == 0 ==> ep(e) + v == v && !occurs(v, ':'),
        e.len() > 0 ==> ep(e) + v == e + seq![':'] + v && !occurs(e, ':'),
{
    assert(nevra_text(n, e, v, r, a) =~= (n + dash() + (ep(e) + v)) + seq!['-'] + (r + dot() + a));
    lemma_has_concat(r, dot(), '-'); lemma_has_concat(r + dot(), a, '-'); lemma_has_single('.', '-');
    lemma_has_concat(ep(e), v, '-');
    if e.len() > 0 { lemma_has_concat(e, colon(), '-'); lemma_has_single(':', '-'); assert(ep(e) + v =~= e + seq![':'] + v); }
    else { assert(ep(e) + v =~= v); assert(!occurs(ep(e), '-')); }
}
pub proof fn lemma_first_split_unique_all(s: Seq<char>, a2: Seq<char>, b2: Seq<char>, c: char)
    requires s == a2 + seq![c] + b2, !occurs(a2, c),
    ensures forall|a1: Seq<char>, b1: Seq<char>| #[trigger] (a1 + seq![c] + b1) == s && !occurs(a1, c) ==> a1 == a2 && b1 == b2,
{
    assert forall|a1: Seq<char>, b1: Seq<char>| #[trigger] (a1 + seq![c] + b1) == s && !occurs(a1, c) implies a1 == a2 && b1 == b2 by {
        lemma_first_split_unique(a1, b1, a2, b2, c);
    }
}
pub proof fn lemma_last_split_unique_all(s: Seq<char>, a2: Seq<char>, b2: Seq<char>, c: char)
    requires s == a2 + seq![c] + b2, !occurs(b2, c),
    ensures forall|a1: Seq<char>, b1: Seq<char>| #[trigger] (a1 + seq![c] + b1) == s && !occurs(b1, c) ==> a1 == a2 && b1 == b2,
{
    assert forall|a1: Seq<char>, b1: Seq<char>| #[trigger] (a1 + seq![c] + b1) == s && !occurs(b1, c) implies a1 == a2 && b1 == b2 by {
        lemma_last_split_unique(a1, b1, a2, b2, c);
    }
}
impl Evr {
    pub open spec fn wf(&self) -> bool { evr_wf(self.epoch@, self.version@, self.release@) }
'''),
    Fn(VER, 'parse_values', impl="impl<'a> Evr<'a>",
       subs=[SPLIT, RSPLIT, EMPTY] + STRIDX + [
             ("pub fn parse_values(evr: &'a str) -> (&'a str, &'a str, &'a str)", "pub fn parse_values<'a>(evr: &'a str) -> (out: (&'a str, &'a str, &'a str))", 1, 'R3-named-return')],
       spec='''    ensures
        // parsing the textual form of any EVR a real package can carry gives back identical components
        forall|e: Seq<char>, v: Seq<char>, r: Seq<char>| evr_wf(e, v, r) && evr@ == #[trigger] evr_text(e, v, r)
            ==> out.0@ == e && out.1@ == v && out.2@ == r,''',
       before=[('        (epoch, version, release)\n', '''        proof {
            assert forall|e: Seq<char>, v: Seq<char>, r: Seq<char>| evr_wf(e, v, r) && evr@ == #[trigger] evr_text(e, v, r)
                implies epoch@ == e && version@ == v && release@ == r by {
                lemma_evr_text_splits(e, v, r);
                let vr_t = v + dash() + r;
                if e.len() == 0 {
                    assert(evr@ =~= vr_t);
                    lemma_mid_occurs(epoch@, vr@, ':');
                } else {
                    assert(evr@ =~= e + seq![':'] + vr_t);
                    lemma_first_split_unique(epoch@, vr@, e, vr_t, ':');
                }
                assert(vr@ == v + seq!['-'] + r);
                lemma_first_split_unique(version@, release@, v, r, '-');
            }
        }
''')]),
    Fn(VER, 'new', impl="impl<'a> Evr<'a>",
       subs=[("pub fn new<T: Into<Cow<'a, str>>>(epoch: T, version: T, release: T) -> Evr<'a>", 'pub fn new(epoch: &str, version: &str, release: &str) -> (r: Evr)', 1, "R5-generic Into<Cow<'a,str>> instantiated at &str"),
             (re.compile(r'\b(\w+)\.into\(\)'), r'cow_from(\1)', None, 'R5-Into<Cow<str>> for &str'), (re.compile(r'\b([A-Za-z_][\w.]*) == ("[^"]*")'), r'str_eq(\1, \2)', None, 'R11-&str comparison with a literal')],
       spec='    ensures r.epoch@ == epoch@, r.version@ == version@, r.release@ == release@,'),
    Fn(VER, 'from', impl="impl<'a> From<(&'a str, &'a str, &'a str)> for Evr<'a>",
       subs=[("fn from(val: (&'a str, &'a str, &'a str)) -> Self", 'pub fn from_tuple(val: (&str, &str, &str)) -> (r: Evr)', 1, 'R10-trait-impl-as-inherent-fn'), (re.compile(r'\b(\w+)\.into\(\)'), r'cow_from(\1)', None, 'R5-Into<Cow<str>> for &str'), (re.compile(r'\b([A-Za-z_][\w.]*) == ("[^"]*")'), r'str_eq(\1, \2)', None, 'R11-&str comparison with a literal')],
       spec='    ensures r.epoch@ == val.0@, r.version@ == val.1@, r.release@ == val.2@,'),
    Fn(VER, 'parse', impl="impl<'a> Evr<'a>",
       subs=[("pub fn parse(evr: &'a str) -> Self", 'pub fn parse(evr: &str) -> (x: Evr)', 1, 'R3-named-return'),
             ('Evr::parse_values(evr).into()', 'Evr::from_tuple(Evr::parse_values(evr))', 1, 'R10-Into via the From impl above')],
       spec='''    ensures
        forall|e: Seq<char>, v: Seq<char>, r: Seq<char>| evr_wf(e, v, r) && evr@ == #[trigger] evr_text(e, v, r)
            ==> x.epoch@ == e && x.version@ == v && x.release@ == r,'''),
    Fn(VER, 'as_normalized_form', impl="impl<'a> Evr<'a>",
       subs=[ret(), format_rule(), (re.compile(r'self\.epoch\.is_empty\(\)'), 'str_is_empty(&self.epoch)', None, 'R5-Cow deref'),
             ('self.epoch.as_ref()', 'self.epoch.as_str()', 1, 'R5-Cow deref')],
       spec='''    ensures r@ == evr_text(epoch_or_zero(self.epoch@), self.version@, self.release@),   // always carries an epoch''',
       prologue='proof { reveal_strlit("0"); reveal_strlit(":"); reveal_strlit("-"); assert("0"@ =~= seq![\'0\']); assert(":"@ =~= seq![\':\']); assert("-"@ =~= seq![\'-\']); }'),
    Fn(VER, 'version', impl="impl<'a> Evr<'a>", subs=[ret(), ('&self.version', 'self.version.as_str()', 1, 'R5-Cow deref')], spec='    ensures r@ == self.version@,'),
    Fn(VER, 'release', impl="impl<'a> Evr<'a>", subs=[ret(), ('&self.release', 'self.release.as_str()', 1, 'R5-Cow deref')], spec='    ensures r@ == self.release@,'),
    Raw('''
}
pub open spec fn epoch_or_zero(e: Seq<char>) -> Seq<char> { if e.len() == 0 { seq!['0'] } else { e } }
impl VDisplay for Evr {
    open spec fn text(&self) -> Seq<char> { evr_text(self.epoch@, self.version@, self.release@) }
'''),
    Fn(VER, 'fmt', impl="impl fmt::Display for Evr<'_>",
       subs=[("fn fmt(&self, f: &mut fmt::Formatter<'_>) -> fmt::Result", 'fn vfmt(&self, f: &mut VFormatter) -> (r: VFmtResult)', 1, 'R10/R29-Display::fmt against the formatter stand-in'),
             (re.compile(r'self\.epoch\.is_empty\(\)'), 'str_is_empty(&self.epoch)', None, 'R5-Cow deref'),
             write_rule()],
       spec='',
       prologue='proof { reveal_strlit(":"); reveal_strlit("-"); assert(":"@ =~= seq![\':\']); assert("-"@ =~= seq![\'-\']); }'),
    Raw('''
}
impl VDisplay for Nevra {
    open spec fn text(&self) -> Seq<char> { nevra_text(self.name@, self.evr.epoch@, self.evr.version@, self.evr.release@, self.arch@) }
'''),
    Fn(VER, 'fmt', impl="impl fmt::Display for Nevra<'_>",
       subs=[("fn fmt(&self, f: &mut fmt::Formatter<'_>) -> fmt::Result", 'fn vfmt(&self, f: &mut VFormatter) -> (r: VFmtResult)', 1, 'R10/R29-Display::fmt against the formatter stand-in'),
             write_rule()],
       spec='',
       prologue='proof { reveal_strlit("."); reveal_strlit("-"); assert("."@ =~= seq![\'.\']); assert("-"@ =~= seq![\'-\']); }'),
    Raw('''
}
impl Nevra {
'''),
    Fn(VER, 'new', impl="impl<'a> Nevra<'a>",
       subs=[(re.compile(r"pub fn new<T: Into<Cow<'a, str>>>\(\s*name: T,\s*epoch: T,\s*version: T,\s*release: T,\s*arch: T,\s*\) -> Nevra<'a>"),
              'pub fn new(name: &str, epoch: &str, version: &str, release: &str, arch: &str) -> (r: Nevra)', 1, "R5-generic Into<Cow<'a,str>> instantiated at &str"),
             (re.compile(r'\b(\w+)\.into\(\)'), r'cow_from(\1)', None, 'R5-Into<Cow<str>> for &str'), (re.compile(r'\b([A-Za-z_][\w.]*) == ("[^"]*")'), r'str_eq(\1, \2)', None, 'R11-&str comparison with a literal')],
       spec='    ensures r.name@ == name@, r.evr.epoch@ == epoch@, r.evr.version@ == version@, r.evr.release@ == release@, r.arch@ == arch@,'),
    Fn(VER, 'parse', impl="impl<'a> Nevra<'a>",
       subs=[("pub fn parse(nevra: &'a str) -> Self", 'pub fn parse(nevra: &str) -> (x: Nevra)', 1, 'R3-named-return'), (re.compile(r'\b([A-Za-z_][\w.]*) == ("[^"]*")'), r'str_eq(\1, \2)', None, 'R11-&str comparison with a literal')],
       spec='''    ensures
        forall|n: Seq<char>, e: Seq<char>, v: Seq<char>, r: Seq<char>, a: Seq<char>|
            evr_wf(e, v, r) && arch_wf(a) && nevra@ == #[trigger] nevra_text(n, e, v, r, a)
            ==> x.name@ == n && x.evr.epoch@ == e && x.evr.version@ == v && x.evr.release@ == r && x.arch@ == a,'''),
    Fn(VER, 'as_normalized_form', impl="impl<'a> Nevra<'a>",
       subs=[ret(), format_rule()],
       spec='''    ensures r@ == nevra_text(self.name@, epoch_or_zero(self.evr.epoch@), self.evr.version@, self.evr.release@, self.arch@),''',
       prologue='proof { reveal_strlit("."); reveal_strlit("-"); assert("."@ =~= seq![\'.\']); assert("-"@ =~= seq![\'-\']); }'),
    Fn(VER, 'parse_values', impl="impl<'a> Nevra<'a>",
       subs=[SPLIT, RSPLIT, EMPTY] + STRIDX + [
             ("pub fn parse_values(nevra: &'a str) -> (&'a str, &'a str, &'a str, &'a str, &'a str)", "pub fn parse_values<'a>(nevra: &'a str) -> (out: (&'a str, &'a str, &'a str, &'a str, &'a str))", 1, 'R3-named-return')],
       spec='''    ensures
        // parsing the textual form of any NEVRA a real package can carry gives back identical components;
        // the NAME is unrestricted (it may contain '-', '.', ':')
        forall|n: Seq<char>, e: Seq<char>, v: Seq<char>, r: Seq<char>, a: Seq<char>|
            evr_wf(e, v, r) && arch_wf(a) && nevra@ == #[trigger] nevra_text(n, e, v, r, a)
            ==> out.0@ == n && out.1@ == e && out.2@ == v && out.3@ == r && out.4@ == a,''',
       before=[('        (name, epoch, version, release, arch)\n', '''        proof {
            // only the parameter and the five results are named here, so that the hint fits any way of splitting
            assert forall|n: Seq<char>, e: Seq<char>, v: Seq<char>, r: Seq<char>, a: Seq<char>|
                evr_wf(e, v, r) && arch_wf(a) && nevra@ == #[trigger] nevra_text(n, e, v, r, a)
                implies name@ == n && epoch@ == e && version@ == v && release@ == r && arch@ == a by {
                lemma_nevra_text_splits(n, e, v, r, a);
                let x = n + dash() + (ep(e) + v);
                let y = r + dot() + a;
                // the LAST dash separates "name-[epoch:]version" from "release.arch" ...
                lemma_mid_occurs(x, y, '-');
                lemma_last_split_unique_all(nevra@, x, y, '-');
                // ... the last dash before it separates the name ...
                lemma_mid_occurs(n, ep(e) + v, '-');
                lemma_last_split_unique_all(x, n, ep(e) + v, '-');
                // ... the first colon after it ends the epoch, if there is one ...
                lemma_mid_occurs(epoch@, version@, ':');
                if e.len() > 0 {
                    lemma_mid_occurs(e, v, ':');
                    lemma_first_split_unique_all(e + seq![':'] + v, e, v, ':');
                }
                // ... and the last dot of "release.arch" separates the arch
                lemma_mid_occurs(r, a, '.');
                lemma_last_split_unique_all(y, r, a, '.');
            }
        }
''')]),
    Raw('''
}
// ---- C15 as executable round trips over the contracts above -----------------------------------
pub fn c15_evr_roundtrip(x: &Evr)
    requires x.wf(),
{
    let mut f = VFormatter::new();
    f.w(x);
    let t = f.finish();
    let out = Evr::parse_values(t.as_str());
    assert(t@ == evr_text(x.epoch@, x.version@, x.release@));
    assert(out.0@ == x.epoch@ && out.1@ == x.version@ && out.2@ == x.release@);
}
pub fn c15_nevra_roundtrip(x: &Nevra)
    requires x.evr.wf(), arch_wf(x.arch@),
{
    let mut f = VFormatter::new();
    f.w(x);
    let t = f.finish();
    let out = Nevra::parse_values(t.as_str());
    assert(t@ == nevra_text(x.name@, x.evr.epoch@, x.evr.version@, x.evr.release@, x.arch@));
    assert(out.0@ == x.name@ && out.1@ == x.evr.epoch@ && out.2@ == x.evr.version@ && out.3@ == x.evr.release@ && out.4@ == x.arch@);
}
/// the normalised form always carries an epoch, and it is the package's epoch or "0"
pub fn c15_normalized_has_epoch(x: &Evr)
    requires x.wf(),
{
    let t = x.as_normalized_form();
    let out = Evr::parse_values(t.as_str());
    proof {
        let e0 = epoch_or_zero(x.epoch@);
        if x.epoch@.len() == 0 { lemma_has_single('0', '-'); lemma_has_single('0', ':'); }
        assert(evr_wf(e0, x.version@, x.release@));
        assert(t@ == evr_text(e0, x.version@, x.release@));
    }
    assert(out.0@ == epoch_or_zero(x.epoch@) && out.0@.len() > 0 && out.1@ == x.version@ && out.2@ == x.release@);
}
// vacuity canary: must FAIL (a release with a dash does not round-trip, the precondition matters)
pub fn canary_c15(x: &Evr)
{
    let mut f = VFormatter::new();
    f.w(x);
    let t = f.finish();
    let out = Evr::parse_values(t.as_str());
    assert(out.2@ == x.release@);
}
'''),
] + TAIL

OBLIGATIONS = {'Evr::new': ['C15'], 'Evr::from_tuple': ['C15'], 'Evr::parse': ['C15'], 'Nevra::new': ['C15'], 'Nevra::parse': ['C15'],
               'Evr::parse_values': ['C15'], 'Nevra::parse_values': ['C15'], 'Evr::as_normalized_form': ['C15'],
               'Nevra::as_normalized_form': ['C15'], 'Evr::vfmt': ['C15'], 'Nevra::vfmt': ['C15'],
               'c15_evr_roundtrip': ['C15'], 'c15_nevra_roundtrip': ['C15'], 'c15_normalized_has_epoch': ['C15'],
               'lemma_first_split_unique': ['C15'], 'lemma_last_split_unique': ['C15'], 'lemma_nevra_text_splits': ['C15'], 'lemma_evr_text_splits': ['C15'], 'lemma_has_concat': ['C15']}
CANARIES = ['canary_c15']
