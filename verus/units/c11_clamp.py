"""C11 (second sentence only): with a source date set, no timestamp the builder records - file
modification times, build time, signature creation time - is later than the source date.
Block contracts on the three clamping statements (prepare_data / build_and_sign are not verified as
functions; the clock is a free variable)."""
import re
from vunit import Raw, Prelude, Fn, Decl, Block
from common import *

NAME = 'c11_clamp'
BUILDER = 'src/rpm/builder.rs'
LT = (re.compile(r'if ([A-Za-z_][\w.]*) < ([A-Za-z_][\w.]*) =>'), r'if ts_lt(\1, \2) =>', None, 'R11-derived PartialOrd on Timestamp')

PARTS = [Prelude('head.rs')] + [
    Decl('src/rpm/timestamp.rs', 'struct', 'Timestamp'),
    Raw('''
impl Copy for Timestamp {}
impl Clone for Timestamp { fn clone(&self) -> Self { *self } }
/// R11: `a < b` on Timestamp (derived PartialOrd on the tuple struct = order of the seconds)
#[verifier::external_body]
pub fn ts_lt(a: Timestamp, b: Timestamp) -> (r: bool) ensures r == (a.0 < b.0) { a.0 < b.0 }
pub open spec fn clamped(sd: Option<Timestamp>, x: Timestamp, r: Timestamp) -> bool {
    match sd {
        Some(d) => r.0 == (if d.0 < x.0 { d.0 } else { x.0 }),   // min(source date, x): never later than the source date
        None => r == x,
    }
}
pub struct PackageBuilder { pub source_date: Option<Timestamp> }
pub struct PackageFileEntry { pub modified_at: Timestamp }
impl PackageBuilder {
'''),
    Block(BUILDER, 'prepare_data', impl='impl PackageBuilder', exclusive=True,
          start='            file_devices.push(1);\n', end='            file_mtimes.push(mtime.into());',
          subs=[LT],
          header='''    /// file modification time recorded in the header
    pub fn c11_mtime(&self, entry: &PackageFileEntry) -> (r: Timestamp)
        ensures clamped(self.source_date, entry.modified_at, r),''',
          tail='\n            mtime'),
    Block(BUILDER, 'prepare_data', impl='impl PackageBuilder', exclusive=True,
          start='        let now = Timestamp::now();\n', end='        actual_records.push(IndexEntry::new(\n            IndexTag::RPMTAG_BUILDTIME,',
          subs=[LT],
          header='''    /// RPMTAG_BUILDTIME (`now` = the clock reading, a free variable)
    pub fn c11_build_time(&self, now: Timestamp) -> (r: Timestamp)
        ensures clamped(self.source_date, now, r),''',
          tail='\n        build_time'),
    Block(BUILDER, 'build_and_sign', impl='impl PackageBuilder', exclusive=True,
          start='        let now = Timestamp::now();\n', end='        // There\'s a little bit of duplicate work going on',
          subs=[LT, (re.compile(r'\A'), '        let source_date = self.source_date;\n', 1, 'block prologue: bind the free variable (verbatim statement preceding the block)')],
          header='''    /// signature creation time handed to sign_with_timestamp
    pub fn c11_signature_time(&self, now: Timestamp) -> (r: Timestamp)
        ensures clamped(self.source_date, now, r),''',
          tail='\n        signature_timestamp'),
    Raw('''}
// vacuity canary: must FAIL
pub fn canary_c11(b: &PackageBuilder, now: Timestamp)
{
    let r = b.c11_build_time(now);
    assert(r.0 < now.0);
}
'''),
] + TAIL

OBLIGATIONS = {'PackageBuilder::c11_mtime': ['C11'], 'PackageBuilder::c11_build_time': ['C11'], 'PackageBuilder::c11_signature_time': ['C11']}
CANARIES = ['canary_c11']
