"""C11 (second sentence only): with a source date set, no timestamp the builder records - file
modification times, build time, signature creation time - is later than the source date.
Block contracts on the three clamping statements (prepare_data / build_and_sign are not verified as
functions; the clock is a free variable)."""
import re
from vunit import Raw, Prelude, Fn, Decl, Block
from common import *

NAME = 'c11_clamp'
BUILDER = 'src/rpm/builder.rs'
PAY = 'src/rpm/payload.rs'
LT = (re.compile(r'if ([A-Za-z_][\w.]*) < ([A-Za-z_][\w.]*) =>'), r'if ts_lt(\1, \2) =>', None, 'R11-derived PartialOrd on Timestamp')

PARTS = [Prelude('head.rs')] + [
    Decl('src/rpm/timestamp.rs', 'struct', 'Timestamp'),
    Raw('''
impl Copy for Timestamp {}
impl Clone for Timestamp { fn clone(&self) -> Self { *self } }
/// R11: `a < b` on Timestamp (derived PartialOrd on the tuple struct = order of the seconds)
#[verifier::external_body]
pub fn ts_lt(a: Timestamp, b: Timestamp) -> (r: bool) ensures r == (a.0 < b.0) { a.0 < b.0 }
impl Timestamp {
    /// derived Ord on the tuple struct: `a.min(b)` / `a.max(b)` by the seconds
    #[verifier::external_body]
    pub fn min(self, o: Timestamp) -> (r: Timestamp) ensures r.0 == (if self.0 <= o.0 { self.0 } else { o.0 }) { unimplemented!() }
    #[verifier::external_body]
    pub fn max(self, o: Timestamp) -> (r: Timestamp) ensures r.0 == (if self.0 >= o.0 { self.0 } else { o.0 }) { unimplemented!() }
}
pub open spec fn clamped(sd: Option<Timestamp>, x: Timestamp, r: Timestamp) -> bool {
    match sd {
        Some(d) => r.0 == (if d.0 < x.0 { d.0 } else { x.0 }),   // min(source date, x): never later than the source date
        None => r == x,
    }
}
pub struct PackageBuilder { pub source_date: Option<Timestamp> }
pub struct PackageFileEntry { pub modified_at: Timestamp }
impl PackageBuilder {
'''),
    Block(BUILDER, 'prepare_data', impl='impl PackageBuilder', exclusive=True,
          start='            file_devices.push(1);\n', end='            file_mtimes.push(mtime.into());',
          subs=[LT],
          header='''    /// file modification time recorded in the header
    /// (`now`, `build_time`: the clock reading and the clamped build time prepare_data computes elsewhere - see b10 of unit c06_files)
    pub fn c11_mtime(&self, entry: &PackageFileEntry, now: Timestamp, build_time: Timestamp) -> (r: Timestamp)
        requires clamped(self.source_date, now, build_time),
        ensures clamped(self.source_date, entry.modified_at, r),''',
          tail='\n            mtime'),
    Block(BUILDER, 'prepare_data', impl='impl PackageBuilder', exclusive=True,
          start='        let now = Timestamp::now();\n', end='        actual_records.push(IndexEntry::new(\n            IndexTag::RPMTAG_BUILDTIME,',
          subs=[LT],
          header='''    /// RPMTAG_BUILDTIME (`now` = the clock reading, a free variable)
    pub fn c11_build_time(&self, now: Timestamp) -> (r: Timestamp)
        ensures clamped(self.source_date, now, r),''',
          tail='\n        build_time'),
    Block(BUILDER, 'build_and_sign', impl='impl PackageBuilder', exclusive=True,
          start='        let now = Timestamp::now();\n', end='        // There\'s a little bit of duplicate work going on',
          subs=[LT, (re.compile(r'\A'), '        let source_date = self.source_date;\n', 1, 'block prologue: bind the free variable (verbatim statement preceding the block)')],
          header='''    /// signature creation time handed to sign_with_timestamp
    pub fn c11_signature_time(&self, now: Timestamp) -> (r: Timestamp)
        ensures clamped(self.source_date, now, r),''',
          tail='\n        signature_timestamp'),
    Raw('''}
// ---- the pgp signer: the creation time written into the signature is the timestamp it is given ----
/// R5 stand-ins for the chrono / pgp types the first statements of `Signer::sign` touch; only the
/// second count of the date and the list of hashed subpackets matter
pub struct DateTime { pub secs: i64 }
impl Copy for DateTime {}
impl Clone for DateTime { fn clone(&self) -> Self { *self } }
impl DateTime {
    /// chrono's DateTime<Utc> is ordered by the instant (Ord::max / Ord::min)
    #[verifier::external_body]
    pub fn max(self, o: DateTime) -> (r: DateTime) ensures r.secs == (if self.secs >= o.secs { self.secs } else { o.secs }) { unimplemented!() }
    #[verifier::external_body]
    pub fn min(self, o: DateTime) -> (r: DateTime) ensures r.secs == (if self.secs <= o.secs { self.secs } else { o.secs }) { unimplemented!() }
}
/// the secret key: only its creation time is visible here, and it is arbitrary
pub struct SecretKey { pub created: DateTime }
impl SecretKey {
    #[verifier::external_body]
    pub fn created_at(&self) -> (r: &DateTime) ensures *r == self.created { unimplemented!() }
}
pub struct LocalResult { pub dt: DateTime }
impl LocalResult {
    #[verifier::external_body]
    pub fn unwrap(self) -> (r: DateTime) ensures r == self.dt { unimplemented!() }
}
pub struct UtcTz;
impl UtcTz {
    /// chrono: `Utc.timestamp_opt(secs, 0)` is the instant `secs` seconds after the epoch
    #[verifier::external_body]
    pub fn timestamp_opt(&self, secs: i64, nanos: u32) -> (r: LocalResult) ensures nanos == 0 ==> r.dt.secs == secs { unimplemented!() }
}
pub enum SignatureType { Binary }
pub enum HashAlgorithm { SHA2_256 }
pub struct PublicKeyAlgorithm;
pub enum SubpacketData { SignatureCreationTime(DateTime), Issuer(u64), IssuerFingerprint(u64) }
pub struct Subpacket { pub critical: bool, pub data: SubpacketData }
impl Subpacket {
    #[verifier::external_body]
    pub fn regular(data: SubpacketData) -> (r: Subpacket) ensures r.data == data, !r.critical { unimplemented!() }
}
pub struct SignatureConfig { pub hashed_subpackets: Vec<Subpacket> }
impl SignatureConfig {
    /// pgp: a fresh v4 configuration has no subpackets
    #[verifier::external_body]
    pub fn v4(typ: SignatureType, alg: PublicKeyAlgorithm, hash: HashAlgorithm) -> (r: SignatureConfig)
        ensures r.hashed_subpackets@.len() == 0,
    { unimplemented!() }
}
pub struct AlgorithmType;
#[verifier::external_body]
pub fn algo_into(a: AlgorithmType) -> PublicKeyAlgorithm { unimplemented!() }
pub struct Signer { pub secret_key: SecretKey }
impl Signer {
    #[verifier::external_body]
    pub fn algorithm(&self) -> AlgorithmType { unimplemented!() }
'''),
    Block('src/rpm/signature/pgp.rs', 'sign', impl='''impl<T> traits::Signing for Signer<T>
where
    T: SecretKeyTrait,''', exclusive=True, keep_end=True,
          start='        use ::chrono::offset::TimeZone;\n',
          end='.push(Subpacket::regular(SubpacketData::SignatureCreationTime(t)));',
          subs=[('::chrono::offset::Utc', 'UtcTz', 1, 'R5-chrono stand-in'),
                ('t.0.into()', '(t.0 as i64)', 1, 'R7-lossless widening conversion u32 -> i64'),
                ('self.algorithm().into()', 'algo_into(self.algorithm())', 1, 'R5-From<AlgorithmType> for PublicKeyAlgorithm')],
          header='''    /// the OpenPGP SignatureCreationTime subpacket carries exactly the timestamp handed to the signer
    pub fn c11_sig_creation_time(&self, t: Timestamp) -> (r: SignatureConfig)
        ensures
            r.hashed_subpackets@.len() == 1,
            r.hashed_subpackets@[0].data == SubpacketData::SignatureCreationTime(DateTime { secs: t.0 as i64 }),''',
          tail='\n        sig_cfg'),
    Raw('''}
// ---- the cpio entry header of each file: its modification-time field -------------------------------
/// stand-ins for what the entry statement of `prepare_data` touches besides the payload builder
#[derive(Clone, Copy)]
pub struct FileMode { pub raw: u16 }
impl FileMode {
    #[verifier::external_body]
    pub fn into(self) -> (r: u32) { unimplemented!() }
}
impl Timestamp {
    /// `impl From<Timestamp> for u32`: the second count
    #[verifier::external_body]
    pub fn into(self) -> (r: u32) ensures r == self.0 { unimplemented!() }
}
pub struct CpioFile { pub mode: FileMode, pub modified_at: Timestamp }
pub struct CpioOwner { pub source_date: Option<Timestamp>, pub uid: Option<u32>, pub gid: Option<u32> }
pub mod payload {
    use super::*;
'''),
    Decl(PAY, 'struct', 'Builder'),
    Raw('''
    /// the entry writer remembers the header fields it was made from (V:c07_header:Builder::into_header turns
    /// them into the 110 header bytes, the mtime among them)
    pub struct Writer { pub fields: Ghost<Builder> }
    #[verifier::external_body]
    pub fn str_to_string(s: &str) -> (r: String) ensures r@ == s@ { s.to_string() }
    impl Builder {
        #[verifier::external_body]
        pub fn write_cpio<W>(self, w: W, file_size: u32) -> (r: Writer) ensures r.fields@ == self { unimplemented!() }
'''),
    Fn(PAY, 'new', impl='impl Builder', subs=[ret(), ('name.to_string()', 'str_to_string(name)', 1, 'A-STR: to_string copies the characters')],
       spec='    ensures r.mtime == 0, r.name@ == name@,'),
] + [Fn(PAY, f, impl='impl Builder', subs=[ret()] + mut_self(),
        spec='    ensures r == (Builder { %s: %s, ..self }),' % (f, f)) for f in ('ino', 'mode', 'uid', 'gid', 'nlink', 'mtime')] + [
    Raw('''    }
}
impl CpioOwner {
'''),
    Block(BUILDER, 'prepare_data', impl='impl PackageBuilder', exclusive=True,
          start='            if !uses_large_files {\n', end='                writer.write_all(&content)?;',
          subs=[(re.compile(r'\A'), '        let mut archive = archive0;\n', 1, 'block prologue: the archive writer is a mutable local of prepare_data')],
          header='''    /// the statement that makes the cpio entry header of a file; `mtime` is the clamped time of c11_mtime, and
    /// `entry.modified_at` the file's own: whichever the code uses, the entry must not carry a time later than the source date
    pub fn c11_cpio_mtime<W>(&self, entry: &CpioFile, mtime: Timestamp, cpio_path: &str, ino_index: u32, archive0: W, content: &Vec<u8>) -> (r: payload::Writer)
        requires clamped(self.source_date, entry.modified_at, mtime),
        ensures
            self.source_date is Some ==> r.fields@.mtime <= self.source_date->Some_0.0,''',
          tail='\n                writer'),
    Raw('''}
// vacuity canary: must FAIL
pub fn canary_c11(b: &PackageBuilder, now: Timestamp)
{
    let r = b.c11_build_time(now);
    assert(r.0 < now.0);
}
'''),
] + TAIL

OBLIGATIONS = {'PackageBuilder::c11_mtime': ['C11'], 'PackageBuilder::c11_build_time': ['C11'], 'PackageBuilder::c11_signature_time': ['C11'],
               'Signer::c11_sig_creation_time': ['C11'], 'CpioOwner::c11_cpio_mtime': ['C11'],
               'payload::Builder::new': ['C11'], 'payload::Builder::mtime': ['C11'],
               'payload::Builder::ino': ['C11'], 'payload::Builder::mode': ['C11'], 'payload::Builder::uid': ['C11'], 'payload::Builder::gid': ['C11'], 'payload::Builder::nlink': ['C11']}
CANARIES = ['canary_c11']
