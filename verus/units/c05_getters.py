"""C05 (typed getters, for headers of ANY size): each get_entry_data_as_* returns the data of the entry
find_entry_or_err yields when its variant is the requested one and an error otherwise - verbatim bodies of
the seven getters used by the accessors and of the IndexData::as_* projections they go through.

find_entry_or_err itself (Iterator::find with a closure) stays an assumed contract here - "the FIRST entry
carrying the tag, TagNotFound when there is none" - which K:k_getters_* establish on the real function for
headers of three entries with symbolic tags in any order."""
import re
from vunit import Raw, Prelude, Fn, Decl
from common import *

NAME = 'c05_getters'
ERRC = (re.compile(r'\.ok_or_else\(\|\| Error::UnexpectedTagDataType \{.*?\}\)', re.S), '.ok_or_else(|| -> (e: Error) ensures e is UnexpectedTagDataType { Error::UnexpectedTagDataType })', None,
        'R12-error payload (three strings describing the mismatch) dropped; closure contract spliced')


def getter(name, ret_ty, spec_fn, val):
    return Fn(HDR, name, impl='impl<T> Header<T> where T: Tag,',
              subs=[ret(), ERRC],
              spec='''    ensures match %s(*self, tag.spec_to_u32()) { Some(d) => r is Ok && %s == d, None => r is Err },
        (r is Err && entry_of(*self, tag.spec_to_u32()) is None) ==> r->Err_0 is TagNotFound,''' % (spec_fn, val))


PARTS = HEAD + consts('INDEX_HEADER_SIZE', 'INDEX_ENTRY_SIZE', 'HEADER_MAGIC') + io_head() + header_types() + [
    Prelude('hdrspec.rs'),
    Prelude('stdspecs2.rs'),
    Prelude('getters.rs', until='impl<T: Tag> Header<T> {'),
    Raw('''
/// R12: `s.first().copied()` / `s.first().map(|s| s.as_str())`: the first element, if any
#[verifier::external_body]
pub fn first_copied<X: Copy>(s: &Vec<X>) -> (r: Option<X>)
    ensures match r { Some(x) => s@.len() > 0 && x == s@[0], None => s@.len() == 0 },
{ s.first().copied() }
#[verifier::external_body]
pub fn first_as_str(s: &Vec<String>) -> (r: Option<&str>)
    ensures match r { Some(x) => s@.len() > 0 && x@ == s@[0]@, None => s@.len() == 0 },
{ s.first().map(|s| s.as_str()) }
impl IndexData {
'''),
    Fn(HDR, 'as_str', impl='impl IndexData', subs=[ret(), ('Some(s)', 'Some(s.as_str())', 1, 'R5-&String to &str deref')],
       spec='    ensures match *self { IndexData::StringTag(d) => r is Some && r->0@ == d@, _ => r is None },'),
    Fn(HDR, 'as_binary', impl='impl IndexData', subs=[ret()],
       spec='    ensures match *self { IndexData::Bin(d) => r is Some && r->0@ == d@, _ => r is None },'),
    Fn(HDR, 'as_string_array', impl='impl IndexData', subs=[ret(), ('Some(d)', 'Some(d.as_slice())', 1, 'R5-&Vec to &[T] deref')],
       spec='    ensures match *self { IndexData::StringArray(d) => r is Some && r->0@ == d@, IndexData::I18NString(d) => r is Some && r->0@ == d@, _ => r is None },'),
    Fn(HDR, 'as_i18n_str', impl='impl IndexData', subs=[ret(), ('s.first().map(|s| s.as_str())', 'first_as_str(s)', 1, 'R12-first().map(as_str)')],
       spec='    ensures match *self { IndexData::I18NString(d) => if d@.len() > 0 { r is Some && r->0@ == d@[0]@ } else { r is None }, _ => r is None },'),
    Fn(HDR, 'as_u32', impl='impl IndexData', subs=[ret(), ('s.first().copied()', 'first_copied(s)', 1, 'R12-first().copied()')],
       spec='    ensures match *self { IndexData::Int32(d) => if d@.len() > 0 { r == Some(d@[0]) } else { r is None }, _ => r is None },'),
    Fn(HDR, 'as_u32_array', impl='impl IndexData', subs=[ret(), ('s.to_vec()', 's.as_slice().to_vec()', 1, 'R5-&Vec to &[T] deref')],
       spec='    ensures match *self { IndexData::Int32(d) => r is Some && r->0@ == d@, _ => r is None },'),
    Fn(HDR, 'as_u64_array', impl='impl IndexData', subs=[ret(), ('s.to_vec()', 's.as_slice().to_vec()', 1, 'R5-&Vec to &[T] deref')],
       spec='    ensures match *self { IndexData::Int64(d) => r is Some && r->0@ == d@, _ => r is None },'),
    Fn(HDR, 'as_u64', impl='impl IndexData', subs=[ret(), ('s.first().copied()', 'first_copied(s)', 1, 'R12-first().copied()')],
       spec='    ensures match *self { IndexData::Int64(d) => if d@.len() > 0 { r == Some(d@[0]) } else { r is None }, _ => r is None },'),
    Raw('''}
impl<T: Tag> Header<T> {
    /// K:k_getters_* (bounded: three entries, symbolic tags in any order) on the real function
    #[verifier::external_body]
    pub fn find_entry_or_err(&self, tag: T) -> (r: Result<&IndexEntry<T>, Error>)
        ensures match entry_of(*self, tag.spec_to_u32()) {
            Some(e) => r is Ok && *r->Ok_0 == e,
            None => r is Err && r->Err_0 is TagNotFound,
        },
    { unimplemented!() }
'''),
    getter('get_entry_data_as_binary', '&[u8]', 'get_bin', 'r->Ok_0@'),
    getter('get_entry_data_as_string', '&str', 'get_str', 'r->Ok_0@'),
    getter('get_entry_data_as_i18n_string', '&str', 'get_i18n', 'r->Ok_0@'),
    getter('get_entry_data_as_u32', 'u32', 'get_u32', 'r->Ok_0'),
    getter('get_entry_data_as_u64', 'u64', 'get_u64', 'r->Ok_0'),
    getter('get_entry_data_as_u32_array', 'Vec<u32>', 'get_u32arr', 'r->Ok_0@'),
    getter('get_entry_data_as_u64_array', 'Vec<u64>', 'get_u64arr', 'r->Ok_0@'),
    getter('get_entry_data_as_string_array', '&[String]', 'get_strarr', 'r->Ok_0@'),
    Raw('''}
// vacuity canary: must FAIL
pub fn canary_getters<T: Tag>(h: &Header<T>, tag: T)
{
    let r = h.get_entry_data_as_u32(tag);
    assert(r is Err);
}
'''),
] + TAIL

OBLIGATIONS = {'IndexData::as_str': ['C05'], 'IndexData::as_binary': ['C05'], 'IndexData::as_string_array': ['C05'], 'IndexData::as_i18n_str': ['C05', 'C04'],
               'IndexData::as_u32': ['C05'], 'IndexData::as_u32_array': ['C05'], 'IndexData::as_u64_array': ['C05'], 'Header::get_entry_data_as_u64_array': ['C05'], 'Header::get_entry_data_as_u32_array': ['C05'], 'IndexData::as_u64': ['C05'],
               'Header::get_entry_data_as_binary': ['C05'], 'Header::get_entry_data_as_string': ['C05'], 'Header::get_entry_data_as_i18n_string': ['C05', 'C04'],
               'Header::get_entry_data_as_u32': ['C05'], 'Header::get_entry_data_as_u64': ['C05'], 'Header::get_entry_data_as_string_array': ['C05']}
CANARIES = ['canary_getters']
