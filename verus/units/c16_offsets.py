"""C16 - reported segment offsets are the real byte boundaries."""
from vunit import Raw, Prelude, Fn, Decl
from common import *

NAME = 'c16_offsets'

PARTS = HEAD + consts('LEAD_SIZE', 'INDEX_HEADER_SIZE', 'INDEX_ENTRY_SIZE', 'HEADER_MAGIC') + header_types() + [
    Prelude('hdrspec.rs'),
    Decl(TYPES, 'struct', 'PackageSegmentOffsets'),
    Decl(PKG, 'struct', 'PackageMetadata'),
    Raw('pub struct Lead { pub bytes: [u8; 96] }\n'
        'pub struct IndexSignatureTag { pub v: u32 }\npub struct IndexTag { pub v: u32 }\n'
        'impl Copy for IndexSignatureTag {} impl Clone for IndexSignatureTag { fn clone(&self) -> Self { *self } }\n'
        'impl Copy for IndexTag {} impl Clone for IndexTag { fn clone(&self) -> Self { *self } }\n'
        'impl Tag for IndexSignatureTag { open spec fn spec_to_u32(&self) -> u32 { self.v } fn to_u32(&self) -> u32 { self.v } }\n'
        'impl Tag for IndexTag { open spec fn spec_to_u32(&self) -> u32 { self.v } fn to_u32(&self) -> u32 { self.v } }\n',
        'R5 tag instances + opaque Lead'),
    Raw('''/// the part of wf() every constructor / mutator of a header must maintain: the intro counts
/// describe the entries and the store (this is what makes the offsets real boundaries)
pub open spec fn wf_counts<T: Tag>(h: Header<T>) -> bool {
    h.index_entries@.len() == h.index_header.num_entries && h.store@.len() == h.index_header.data_section_size
}
impl IndexHeader {
'''),
    Fn(HDR, 'new', impl='impl IndexHeader', subs=[ret()],
       spec='    ensures r.num_entries == num_entries, r.data_section_size == data_len, r.magic@ == HEADER_MAGIC@, r.version == 1,'),
    Raw('}\nimpl<T: Tag> Header<T> {\n'),
    Fn(HDR, 'size', impl='impl<T> Header<T> where T: Tag,',
       subs=[ret()],
       before=[('let index_size', '''proof {
            // nonlinear hint: the product of two 32-bit values fits 64 bits (and equals 16 * n)
            assert((self.index_header.num_entries as int) * (INDEX_ENTRY_SIZE as int)
                   == 16 * (self.index_header.num_entries as int)) by (nonlinear_arith)
                requires INDEX_ENTRY_SIZE == 16;
        }
        ''')],
       spec='    ensures r as int == hdr_len(*self),'),
    Raw('}\nimpl Header<IndexSignatureTag> {\n'),
    Fn(HDR, 'new_empty', impl='impl Header<IndexSignatureTag>', subs=[ret()],
       spec='    ensures wf_counts(r), r.index_entries@.len() == 0, r.store@.len() == 0,'),
    Fn(HDR, 'clear', impl='impl Header<IndexSignatureTag>',
       spec='    ensures wf_counts(*final(self)), final(self).index_entries@.len() == 0, final(self).store@.len() == 0,'),
    Fn(HDR, 'padding_required', impl='impl Header<IndexSignatureTag>',
       subs=[ret()],
       spec='    ensures r as int == sigpad(self.index_header.data_section_size as int), 0 <= r < 8,'),
    Raw('}\nimpl PackageMetadata {\n'),
    Fn(PKG, 'get_package_segment_offsets', impl='impl PackageMetadata',
       subs=[ret()],
       spec='''    ensures
        r.lead == 0,
        r.signature_header == 96,
        r.header as int == 96 + hdr_len(self.signature) + sigpad(self.signature.index_header.data_section_size as int),
        r.payload as int == r.header as int + hdr_len(self.header),
        r.lead < r.signature_header < r.header < r.payload,'''),
    Raw('}\n'),
    Raw('''
// The offsets are positions in the canonical serialisation (ties C16 to the C01/C14 writer contract).
pub open spec fn ser_meta_tail(m: PackageMetadata) -> Seq<u8> {
    ser_header(m.signature) + zeros(sigpad(m.signature.index_header.data_section_size as int)) + ser_header(m.header)
}
pub proof fn lemma_offsets_are_boundaries(m: PackageMetadata, lead: Seq<u8>, content: Seq<u8>)
    requires wf(m.signature), wf(m.header), lead.len() == 96,
    ensures ({
        let pkg = lead + ser_meta_tail(m) + content;
        let sig_off = 96int;
        let hdr_off = 96 + hdr_len(m.signature) + sigpad(m.signature.index_header.data_section_size as int);
        let pay_off = hdr_off + hdr_len(m.header);
        &&& pkg.len() - pay_off == content.len()
        &&& pkg.subrange(pay_off, pkg.len() as int) == content
        &&& pkg.subrange(sig_off, sig_off + 3) == HEADER_MAGIC@
        &&& pkg.subrange(hdr_off, hdr_off + 3) == HEADER_MAGIC@
        &&& 0 < sig_off < hdr_off < pay_off
    }),
{
    lemma_ser_header_len(m.signature);
    lemma_ser_header_len(m.header);
    let pad = sigpad(m.signature.index_header.data_section_size as int);
    let pkg = lead + ser_meta_tail(m) + content;
    let hdr_off = 96 + hdr_len(m.signature) + pad;
    let pay_off = hdr_off + hdr_len(m.header);
    assert(zeros(pad).len() == pad);
    assert(pkg.subrange(pay_off, pkg.len() as int) =~= content);
    assert(ser_ih(m.signature.index_header).subrange(0, 3) =~= HEADER_MAGIC@);
    assert(ser_ih(m.header.index_header).subrange(0, 3) =~= HEADER_MAGIC@);
    assert(pkg.subrange(96, 99) =~= HEADER_MAGIC@);
    assert(pkg.subrange(hdr_off, hdr_off + 3) =~= HEADER_MAGIC@);
}
// vacuity canary: must FAIL
pub proof fn canary_c16(m: PackageMetadata)
    requires wf(m.signature), wf(m.header),
{
    assert(false);
}
''', 'lemmas'),
] + TAIL

OBLIGATIONS = {
    'Header::size': ['C16', 'C04'],
    'Header::padding_required': ['C16', 'C09'],
    'Header::new_empty': ['C16', 'C09'],
    'Header::clear': ['C16', 'C09'],
    'IndexHeader::new': ['C16', 'C09'],
    'PackageMetadata::get_package_segment_offsets': ['C16', 'C04'],
    'lemma_ser_entries_len': ['C16'],
    'lemma_ser_header_len': ['C16'],
    'lemma_offsets_are_boundaries': ['C16'],
}
CANARIES = ['canary_c16']
