"""Block contracts inside PackageBuilder::prepare_data (the function as a whole is out of reach):
verbatim statement ranges wrapped into synthetic functions over their free variables.
B1 (C08): the payload digest, its algorithm and the alternate (uncompressed-archive) digest.
B2 (C09): the rpmlib() requirements declared per feature used.
B4 (C07/C09): the large-file (stripped cpio) branch emits header, content and alignment padding."""
import re
from vunit import Raw, Prelude, Fn, Decl, Block
from common import *

NAME = 'c08_blocks'
BUILDER = 'src/rpm/builder.rs'

PARTS = HEAD + consts('INDEX_HEADER_SIZE', 'INDEX_ENTRY_SIZE', 'HEADER_MAGIC') + io_head() + header_types() + [
    Prelude('hdrspec.rs'),
] + tag_enums() + [
    Prelude('crypto.rs'),
    Decl(TYPES, 'struct', 'Sha256Writer'),
    Decl('src/rpm/compressor.rs', 'enum', 'CompressionType', subs=[(re.compile(r'[ \t]*#\[default\]\s*\n'), '', None, 'R1-attr')]),
    Decl('src/rpm/compressor.rs', 'enum', 'CompressionWithLevel'),
    Raw('''
impl<W> Sha256Writer<W> {
    /// proved in unit c10_sign (V:Sha256Writer::into_digest)
    #[verifier::external_body]
    pub fn into_digest(self) -> (r: DigestOut) ensures r.bytes@ == sha256_spec(self.hasher.absorbed@) { unimplemented!() }
}
/// the compressor as the builder uses it here: finishing yields the compressed payload bytes
pub struct Compressor { pub out: Ghost<Seq<u8>> }
impl Compressor {
    #[verifier::external_body]
    pub fn finish_compression(self) -> (r: Result<Vec<u8>, Error>) ensures r is Ok ==> r->Ok_0@ == self.out@ { unimplemented!() }
}
impl<T: Tag> IndexEntry<T> {
    /// V:c09_from_entries:IndexEntry::new
    #[verifier::external_body]
    pub fn new(tag: T, offset: i32, data: IndexData) -> (r: IndexEntry<T>)
        ensures r.tag == tag.spec_to_u32(), r.offset == offset, r.data == data,
    { unimplemented!() }
}
/// R9: `v.extend([a, b, c])` (std: appends the elements of the array in order)
#[verifier::external_body]
pub fn vec_extend3<T>(v: &mut Vec<T>, a: [T; 3])
    ensures final(v)@ == old(v)@ + a@,
{
    v.extend(a);
}
pub open spec fn is_str1(d: IndexData, s: Seq<char>) -> bool {
    d is StringArray && d->StringArray_0@.len() == 1 && d->StringArray_0@[0]@ == s
}
'''),
    Block(BUILDER, 'prepare_data', impl='impl PackageBuilder', exclusive=True,
          start='                IndexData::Int32(provide_flags),\n            ),\n        ]);\n',
          end='        let compression_details = match self.compression {',
          subs=[('actual_records.extend([', 'vec_extend3(&mut actual_records, [', None, 'R9-Vec::extend(array)'),
                (re.compile(r'\A'), '        let mut actual_records = records;\n', 1, 'block prologue: bind the free variable')],
          header='''/// B1 - free variables: archive (hashing writer over the compressor), compressor, offset, actual_records
pub fn b1_payload_digests<W>(archive: Sha256Writer<W>, compressor: Compressor, offset: i32, records: Vec<IndexEntry<IndexTag>>) -> (r: Result<(Vec<IndexEntry<IndexTag>>, Vec<u8>), Error>)
    ensures r is Ok ==> {
        let recs = r->Ok_0.0@;
        let payload = r->Ok_0.1@;
        let n = records@.len() as int;
        &&& payload == compressor.out@                        // the payload is what the compressor produced
        &&& recs.len() == n + 3 && recs.subrange(0, n) == records@
        // RPMTAG_PAYLOADDIGEST = hex(sha256(compressed payload)), algorithm SHA-256 (8)
        &&& recs[n].tag == 5092 && is_str1(recs[n].data, hex_spec(sha256_spec(payload)))
        &&& recs[n + 1].tag == 5093 && recs[n + 1].data is Int32 && recs[n + 1].data->Int32_0@ == seq![8u32]
        // RPMTAG_PAYLOADDIGESTALT = hex(sha256(uncompressed archive)) = what the hashing writer absorbed
        &&& recs[n + 2].tag == 5097 && is_str1(recs[n + 2].data, hex_spec(sha256_spec(archive.hasher.absorbed@)))
    },''',
          tail='''
        proof {
            assert(actual_records@.subrange(0, records@.len() as int) =~= records@);
        }
        Ok((actual_records, payload))'''),
    Raw('''
// vacuity canary: must FAIL
pub fn canary_b1<W>(archive: Sha256Writer<W>, compressor: Compressor, records: Vec<IndexEntry<IndexTag>>)
{
    let r = b1_payload_digests(archive, compressor, 0, records);
    assert(r is Err);
}
'''),
] + TAIL

OBLIGATIONS = {'b1_payload_digests': ['C08']}
CANARIES = ['canary_b1']
