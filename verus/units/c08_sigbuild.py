"""C08 / C10 / C09: SignatureHeaderBuilder::build stores the header digest under RPMSIGTAG_SHA256
as a string, all OpenPGP signatures (base64) under RPMSIGTAG_OPENPGP, and the LAST signature under
the legacy tag chosen by its key algorithm - and the result is a well-formed header.  Replaces the
former axiom about `build` (axiom_built_sig_digest) by a proof on the verbatim body."""
import re
from vunit import Raw, Prelude, Fn, Decl
from common import *

NAME = 'c08_sigbuild'
SIGS = 'src/rpm/headers/signatures.rs'
CFG = (re.compile(r'[ \t]*#\[cfg\(feature = "signature-pgp"\)\]\s*\n'), '', None, 'R1-cfg-attributes (signature-pgp on)')

PARTS = HEAD + consts('INDEX_HEADER_SIZE', 'INDEX_ENTRY_SIZE', 'HEADER_MAGIC') + io_head() + header_types() + [
    Prelude('hdrspec.rs'),
] + tag_enums() + [
    Prelude('getters.rs'),
    Decl(SIGS, 'struct', 'SignatureHeaderBuilder'),
    Raw('''
// ---- A-PGP stand-ins: the packet parser and base64 armour are not under contract -----------------
pub enum PublicKeyAlgorithm { RSA, ECDSA, EdDSALegacy, Ed25519, DSA, Elgamal, Other }
pub struct SigConfig { pub pub_alg: PublicKeyAlgorithm }
pub struct PgpSignature { pub config: SigConfig }
pub uninterp spec fn pgp_alg(sig: Seq<u8>) -> Option<PublicKeyAlgorithm>;
pub uninterp spec fn b64_enc(sig: Seq<u8>) -> Seq<char>;
pub struct Verifier {}
impl Verifier {
    #[verifier::external_body]
    pub fn parse_signature(signature: &Vec<u8>) -> (r: Result<PgpSignature, Error>)
        ensures match pgp_alg(signature@) { Some(a) => r is Ok && r->Ok_0.config.pub_alg == a, None => r is Err },
    { unimplemented!() }
}
#[verifier::external_body]
pub fn encode_sig(signature: &Vec<u8>) -> (r: String) ensures r@ == b64_enc(signature@) { unimplemented!() }
#[verifier::external_body]
pub fn clone_bytes(v: &Vec<u8>) -> (r: Vec<u8>) ensures r@ == v@ { v.clone() }

// ---- what from_entries guarantees (proved in unit c09_from_entries: V:Header::from_entries) -------
pub open spec fn same_payload<T: Tag>(a: IndexEntry<T>, b: IndexEntry<T>) -> bool {
    a.tag == b.tag && a.data == b.data && a.num_items == b.num_items
}
pub open spec fn has_payload<T: Tag>(s: Seq<IndexEntry<T>>, e: IndexEntry<T>) -> bool {
    exists|j: int| 0 <= j < s.len() && same_payload(e, #[trigger] s[j])
}
/// the part of `from_entries_ok` this unit uses
pub open spec fn built_from<T: Tag>(input: Seq<IndexEntry<T>>, region: u32, h: Header<T>) -> bool {
    let n = input.len() as int;
    let es = h.index_entries@;
    let recs = es.subrange(1, es.len() as int);
    &&& wf(h)
    &&& es.len() == n + 1
    &&& forall|i: int| 0 <= i < n ==> has_payload(recs, #[trigger] input[i])
    &&& forall|j: int| 0 <= j < n ==> has_payload(input, #[trigger] recs[j])
    &&& es[0].tag == region
}
/// A-SIZE: the proof of from_entries (unit c09_from_entries) requires that the laid-out data fits
/// the format's i32 offsets (< 2 GiB, < 2^26 records).  A signature header holds a digest and a
/// handful of signatures; that size precondition is ASSUMED here, not proved for `build`.
impl<T: Tag> Header<T> {
    #[verifier::external_body]
    pub fn from_entries(actual_records: Vec<IndexEntry<T>>, region_tag: T) -> (r: Self)
        ensures built_from(actual_records@, region_tag.spec_to_u32(), r),
    { unimplemented!() }
}
impl<T: Tag> IndexEntry<T> {
'''),
    Fn(HDR, 'new', impl='impl<T: Tag> IndexEntry<T>', subs=[ret(), ('data.num_items()', 'num_items_of(&data)', None, 'R12-callee declared in this unit')],
       spec='    ensures r.tag == tag.spec_to_u32(), r.offset == offset, r.data == data,'),
    Raw('''}
#[verifier::external_body]
pub fn num_items_of(d: &IndexData) -> (r: u32) { unimplemented!() }

// ---- lookup in a header built by from_entries ---------------------------------------------------
pub proof fn lemma_first_idx<T: Tag>(es: Seq<IndexEntry<T>>, t: u32)
    ensures
        0 <= first_idx(es, t) <= es.len(),
        first_idx(es, t) < es.len() ==> es[first_idx(es, t)].tag == t,
        forall|i: int| 0 <= i < first_idx(es, t) ==> (#[trigger] es[i]).tag != t,
    decreases es.len(),
{
    if es.len() > 0 && es[0].tag != t {
        lemma_first_idx(es.drop_first(), t);
        assert forall|i: int| 0 <= i < first_idx(es, t) implies (#[trigger] es[i]).tag != t by {
            if i > 0 { assert(es[i] == es.drop_first()[i - 1]); }
        }
    }
}
/// an input entry whose tag is unique among the input (and is not the region tag) is what a lookup
/// of that tag finds; a tag that no input entry carries is not found
pub proof fn lemma_lookup<T: Tag>(input: Seq<IndexEntry<T>>, region: u32, h: Header<T>, e: IndexEntry<T>)
    requires built_from(input, region, h), e.tag != region,
        exists|i: int| 0 <= i < input.len() && input[i] == e,
        forall|i: int| 0 <= i < input.len() && (#[trigger] input[i]).tag == e.tag ==> input[i].data == e.data,
    ensures entry_of(h, e.tag) is Some, entry_of(h, e.tag)->0.data == e.data,
{
    let es = h.index_entries@;
    let recs = es.subrange(1, es.len() as int);
    lemma_first_idx(es, e.tag);
    let i0 = choose|i: int| 0 <= i < input.len() && input[i] == e;
    assert(has_payload(recs, input[i0]));
    let j = choose|j: int| 0 <= j < recs.len() && same_payload(e, #[trigger] recs[j]);
    assert(es[j + 1] == recs[j]);
    let k = first_idx(es, e.tag);
    assert(k <= j + 1);
    assert(k >= 1);
    assert(es[k] == recs[k - 1]);
    assert(has_payload(input, recs[k - 1]));
}
pub proof fn lemma_absent<T: Tag>(input: Seq<IndexEntry<T>>, region: u32, h: Header<T>, t: u32)
    requires built_from(input, region, h), t != region,
        forall|i: int| 0 <= i < input.len() ==> (#[trigger] input[i]).tag != t,
    ensures entry_of(h, t) is None,
{
    let es = h.index_entries@;
    let recs = es.subrange(1, es.len() as int);
    lemma_first_idx(es, t);
    let k = first_idx(es, t);
    if k < es.len() {
        assert(k >= 1);
        assert(es[k] == recs[k - 1]);
        assert(has_payload(input, recs[k - 1]));
    }
}
// ---- C08 / C10, written from the statements -----------------------------------------------------
pub open spec fn legacy_tag(a: PublicKeyAlgorithm) -> Option<u32> {
    match a {
        PublicKeyAlgorithm::RSA => Some(268u32),
        PublicKeyAlgorithm::ECDSA => Some(267u32),
        PublicKeyAlgorithm::EdDSALegacy => Some(267u32),
        PublicKeyAlgorithm::Ed25519 => Some(267u32),
        _ => None,
    }
}
pub open spec fn sig_header_ok(b: SignatureHeaderBuilder, h: Header<IndexSignatureTag>) -> bool {
    let sigs = b.openpgp_signatures@;
    &&& wf(h)
    // the header digest is stored under RPMSIGTAG_SHA256 as a string (C08)
    &&& (b.header_sha256 is Some ==> get_str(h, 273) == Some(b.header_sha256->0@))
    &&& (b.header_sha256 is None ==> entry_of(h, 273) is None)
    // no signature given: no signature tag at all (C10: clear)
    &&& (sigs.len() == 0 ==> entry_of(h, 278) is None && entry_of(h, 268) is None && entry_of(h, 267) is None)
    // signatures given: all of them, base64, in order under RPMSIGTAG_OPENPGP; the LAST one raw
    // under the legacy tag its key algorithm calls for (C10)
    &&& (sigs.len() > 0 ==> {
            let last = sigs[sigs.len() - 1];
            &&& get_strarr(h, 278) is Some
            &&& get_strarr(h, 278)->0.len() == sigs.len()
            &&& forall|k: int| 0 <= k < sigs.len() ==> (#[trigger] get_strarr(h, 278)->0[k])@ == b64_enc(sigs[k]@)
            &&& pgp_alg(last@) is Some && legacy_tag(pgp_alg(last@)->0) is Some
            &&& get_bin(h, legacy_tag(pgp_alg(last@)->0)->0) == Some(last@)
        })
}
impl SignatureHeaderBuilder {
'''),
    Fn(SIGS, 'build', impl='impl SignatureHeaderBuilder',
       subs=[ret(), CFG,
             ('crate::Error', 'Error', None, 'R4-error-path'),
             (re.compile(r'Error::UnsupportedPGPKeyType\(a\)'), 'Error::Other', None, 'R4-error-message'),
             ('let mut entries = Vec::new();', 'let mut entries: Vec<IndexEntry<IndexSignatureTag>> = Vec::new();', None, 'R9-type-annotation'),
             ('let mut openpgp_signatures = Vec::new();', 'let mut openpgp_signatures: Vec<String> = Vec::new();', None, 'R9-type-annotation'),
             ('let mut legacy_sig = None;', 'let mut legacy_sig: Option<(IndexSignatureTag, &Vec<u8>)> = None;', None, 'R9-type-annotation'),
             ('for sig_bytes in &self.openpgp_signatures', 'for sig_bytes in vi: &self.openpgp_signatures', None, 'R15-for-loop-ghost-iterator-name'),
             ('sig_bytes.clone()', 'clone_bytes(sig_bytes)', None, 'R12-Vec::clone'),
             ],
       loops={0: '''                invariant
                    0 <= vi.index@ <= self.openpgp_signatures@.len(),
                    openpgp_signatures@.len() == vi.index@,
                    forall|k: int| 0 <= k < vi.index@ ==> (#[trigger] openpgp_signatures@[k])@ == b64_enc(self.openpgp_signatures@[k]@),
                    vi.index@ == 0 ==> legacy_sig is None,
                    vi.index@ > 0 ==> {
                        let last = self.openpgp_signatures@[vi.index@ - 1];
                        &&& legacy_sig is Some
                        &&& legacy_sig->Some_0.1@ == last@
                        &&& pgp_alg(last@) is Some && legacy_tag(pgp_alg(last@)->0) == Some(legacy_sig->Some_0.0.spec_to_u32())
                    },
'''},
       spec='''    ensures
        r is Ok ==> sig_header_ok(self, r->Ok_0),
        self.openpgp_signatures@.len() == 0 ==> r is Ok,''',
       before=[('let header = Header::<IndexSignatureTag>::from_entries(', '''let ghost ents = entries@;
        '''),
               ('Ok(header)', '''proof {
            {
                let sigs = self.openpgp_signatures@;
                if self.header_sha256 is Some {
                    let e = ents[ents.len() - 1];
                    lemma_lookup(ents, 62, header, e);
                } else {
                    lemma_absent(ents, 62, header, 273);
                }
                if sigs.len() == 0 {
                    lemma_absent(ents, 62, header, 278);
                    lemma_absent(ents, 62, header, 268);
                    lemma_absent(ents, 62, header, 267);
                } else {
                    lemma_lookup(ents, 62, header, ents[0]);
                    lemma_lookup(ents, 62, header, ents[1]);
                }
            }
        }
        ''')]),
    Raw('''}
// vacuity canary: must FAIL
pub fn canary_c08_build(b: SignatureHeaderBuilder)
{
    let r = b.build();
    assert(r is Err);
}
'''),
] + TAIL

OBLIGATIONS = {
    'SignatureHeaderBuilder::build': ['C08', 'C10', 'C09'],
    'IndexEntry::new': ['C08', 'C10', 'C09'],
    'lemma_first_idx': ['C08', 'C10'],
    'lemma_lookup': ['C08', 'C10'],
    'lemma_absent': ['C08', 'C10'],
}
CANARIES = ['canary_c08_build']
