"""C06 (destination path of a file): PackageBuilder::add_data records, for every clean destination
"<dir>/<name>" ('/'-style) or ".<dir>/<name>" ('./'-style, also directly under the root), the
directory "<dir>/" and the base name "<name>" - so that the path read back (dirname + basename, unit
c05 / package.rs) is exactly the destination.  A file directly under the root has the directory "/".

The verbatim body of add_data is verified against std::path stand-ins that carry the DOCUMENTED
behaviour of Path::parent / file_name / strip_prefix on clean paths as axioms (A-PATH-SEM); the
no-panic half of the same function is unit c17_add_data, where the stand-ins answer arbitrarily."""
import re
from vunit import Raw, Prelude, Fn, Decl
from common import *

NAME = 'c06_add_data'
BUILDER = 'src/rpm/builder.rs'

PARTS = [Prelude('head.rs')] + [
    Decl('src/rpm/timestamp.rs', 'struct', 'Timestamp'),
    Raw('''
pub enum Error { InvalidDestinationPath { path: String, desc: &'static str }, Other }
// ---- spec vocabulary: clean destinations -----------------------------------------------------------
pub open spec fn occurs(s: Seq<char>, c: char) -> bool { exists|i: int| 0 <= i < s.len() && s[i] == c }
pub open spec fn slash() -> Seq<char> { seq!['/'] }
/// a normal path component: non-empty, no '/', neither "." nor ".."
pub open spec fn normal_comp(n: Seq<char>) -> bool {
    n.len() > 0 && !occurs(n, '/') && n != seq!['.'] && n != seq!['.', '.']
}
/// a clean absolute directory prefix: "" (the root) or "/c1/c2/.." of normal components
pub open spec fn clean_dir(d: Seq<char>) -> bool
    decreases d.len(),
{
    d.len() == 0 || exists|p: Seq<char>, c: Seq<char>| #![trigger p + slash() + c] d == p + slash() + c && p.len() < d.len() && normal_comp(c) && clean_dir(p)
}
// ---- A-PATH-SEM: documented behaviour of std::path on such paths, as uninterpreted functions + axioms ----
pub uninterp spec fn path_parent(p: Seq<char>) -> Option<Seq<char>>;
pub uninterp spec fn path_file_name(p: Seq<char>) -> Option<Seq<char>>;
pub uninterp spec fn path_strip_dot(p: Seq<char>) -> Option<Seq<char>>;
/// Path::new("<d>/<n>"): parent is "<d>" (or "/" directly under the root), file_name is "<n>"
#[verifier::external_body]
pub proof fn axiom_path_abs(d: Seq<char>, n: Seq<char>)
    requires clean_dir(d), normal_comp(n),
    ensures
        path_parent(d + slash() + n) == Some(if d.len() == 0 { slash() } else { d }),
        path_file_name(d + slash() + n) == Some(n),
{}
/// Path::new(".<d>/<n>"): parent is ".<d>", file_name is "<n>"; strip_prefix(".") of ".<d>" is "<d>" without its leading '/'
#[verifier::external_body]
pub proof fn axiom_path_dot(d: Seq<char>, n: Seq<char>)
    requires clean_dir(d), normal_comp(n),
    ensures
        path_parent(seq!['.'] + d + slash() + n) == Some(seq!['.'] + d),
        path_file_name(seq!['.'] + d + slash() + n) == Some(n),
        path_strip_dot(seq!['.'] + d) == Some(if d.len() == 0 { d } else { d.subrange(1, d.len() as int) }),
{}
// ---- stand-ins carrying these functions (the text of a path built from a String is that String) -----
pub struct PathBuf { pub text: Ghost<Seq<char>> }
pub struct Path { pub text: Ghost<Seq<char>> }
pub struct OsStr { pub text: Ghost<Seq<char>> }
pub struct StripPrefixError;
pub struct CowStr { pub text: Ghost<Seq<char>> }
impl PathBuf {
    #[verifier::external_body]
    pub fn from(s: String) -> (r: PathBuf) ensures r.text@ == s@ { unimplemented!() }
    #[verifier::external_body]
    pub fn parent(&self) -> (r: Option<&Path>)
        ensures match r { Some(p) => path_parent(self.text@) == Some(p.text@), None => path_parent(self.text@) is None }
    { unimplemented!() }
    #[verifier::external_body]
    pub fn file_name(&self) -> (r: Option<&OsStr>)
        ensures match r { Some(p) => path_file_name(self.text@) == Some(p.text@), None => path_file_name(self.text@) is None }
    { unimplemented!() }
}
impl Path {
    /// only `strip_prefix(".")` occurs
    #[verifier::external_body]
    pub fn strip_prefix(&self, base: &str) -> (r: Result<&Path, StripPrefixError>)
        ensures base@ == seq!['.'] ==> match r { Ok(p) => path_strip_dot(self.text@) == Some(p.text@), Err(_) => path_strip_dot(self.text@) is None }
    { unimplemented!() }
    #[verifier::external_body]
    pub fn to_string_lossy(&self) -> (r: CowStr) ensures r.text@ == self.text@ { unimplemented!() }
}
impl OsStr {
    #[verifier::external_body]
    pub fn to_string_lossy(&self) -> (r: CowStr) ensures r.text@ == self.text@ { unimplemented!() }
}
impl CowStr {
    #[verifier::external_body]
    pub fn to_string(&self) -> (r: String) ensures r@ == self.text@ { unimplemented!() }
}
/// R12: string plumbing with its meaning
#[verifier::external_body]
pub fn starts_with_str(s: &String, p: &str) -> (r: bool)
    ensures r == (s@.len() >= p@.len() && s@.subrange(0, p@.len() as int) == p@) { unimplemented!() }
#[verifier::external_body]
pub fn starts_with_char(s: &String, p: char) -> (r: bool) ensures r == (s@.len() > 0 && s@[0] == p) { unimplemented!() }
#[verifier::external_body]
pub fn ends_with_char(s: &String, p: char) -> (r: bool) ensures r == (s@.len() > 0 && s@[s@.len() - 1] == p) { unimplemented!() }
#[verifier::external_body]
pub fn string_clone(s: &String) -> (r: String) ensures r@ == s@ { unimplemented!() }
/// R29: format!("<a>{}<b>", x)
#[verifier::external_body]
pub fn format1(a: &str, x: &CowStr, b: &str) -> (r: String) ensures r@ == a@ + x.text@ + b@ { unimplemented!() }
#[verifier::external_body]
pub fn format1s(a: &str, x: &String, b: &str) -> (r: String) ensures r@ == a@ + x@ + b@ { unimplemented!() }
// ---- opaque field types, hashing, the two collections ------------------------------------------------
pub struct FileMode;
pub struct FileFlags;
pub struct FileCaps;
pub struct FileVerifyFlags;
/// A-HASH: SHA-256 and hex are uninterpreted functions of the bytes; RustCrypto / hex compute them
pub uninterp spec fn sha256_spec(d: Seq<u8>) -> Seq<u8>;
pub uninterp spec fn hex_spec(d: Seq<u8>) -> Seq<char>;
pub mod sha2 {
    use super::*;
    pub struct Sha256 { pub absorbed: Ghost<Seq<u8>> }
    pub struct Output { pub bytes: Ghost<Seq<u8>> }
    impl Sha256 {
        #[verifier::external_body]
        pub fn default() -> (r: Sha256) ensures r.absorbed@ == Seq::<u8>::empty() { unimplemented!() }
        #[verifier::external_body]
        pub fn update(&mut self, data: &Vec<u8>) ensures final(self).absorbed@ == old(self).absorbed@ + data@ { unimplemented!() }
        #[verifier::external_body]
        pub fn finalize(self) -> (r: Output) ensures r.bytes@ == sha256_spec(self.absorbed@) { unimplemented!() }
        /// `Digest::digest(data)`: hash in one call
        #[verifier::external_body]
        pub fn digest(data: &Vec<u8>) -> (r: Output) ensures r.bytes@ == sha256_spec(data@) { unimplemented!() }
    }
}
pub mod hex {
    use super::*;
    #[verifier::external_body]
    pub fn encode(o: sha2::Output) -> (r: String) ensures r@ == hex_spec(o.bytes@) { unimplemented!() }
}
'''),
    Decl(TYPES, 'struct', 'FileOptions'),
    Decl(TYPES, 'struct', 'PackageFileEntry'),
    Raw('''
/// BTreeMap<String, PackageFileEntry>: what was added last under a key that was vacant
pub struct FileMap { pub last_key: Ghost<Seq<char>>, pub last: Ghost<Option<PackageFileEntry>>, pub offered: Ghost<Option<PackageFileEntry>> }
impl FileMap {
    pub uninterp spec fn has_key(&self, k: Seq<char>) -> bool;
    /// R31: `map.entry(k).or_insert(v);` inserts v under k unless k is present
    #[verifier::external_body]
    pub fn insert_if_vacant(&mut self, k: String, v: PackageFileEntry)
        ensures !old(self).has_key(k@) ==> final(self).last_key@ == k@ && final(self).last@ == Some(v),
            final(self).offered@ == Some(v),   // the entry handed to the map, whether or not the key was vacant
    { unimplemented!() }
}
pub struct DirSet { pub last: Ghost<Seq<char>> }
impl DirSet {
    #[verifier::external_body]
    pub fn insert(&mut self, v: String) -> bool ensures final(self).last@ == v@ { unimplemented!() }
}
impl Copy for Timestamp {}
impl Clone for Timestamp { fn clone(&self) -> Self { *self } }
/// R11: `a < b` on Timestamp (derived PartialOrd on the tuple struct = order of the seconds)
#[verifier::external_body]
pub fn ts_lt(a: Timestamp, b: Timestamp) -> (r: bool) ensures r == (a.0 < b.0) { a.0 < b.0 }
/// (source_date is not read by add_data on the pinned tree; the field is here so that an edit that starts reading it
/// - two independent seeds moved the mtime clamp into add_data - is judged instead of rejected)
pub struct PackageBuilder { pub files: FileMap, pub directories: DirSet, pub source_date: Option<Timestamp> }
pub proof fn lemma_strlits()
    ensures "./"@ == seq!['.', '/'], "/"@ == seq!['/'], "."@ == seq!['.'], ""@ == Seq::<char>::empty(),
{
    reveal_strlit("./"); reveal_strlit("/"); reveal_strlit("."); reveal_strlit("");
    assert("./"@ =~= seq!['.', '/']); assert("/"@ =~= seq!['/']); assert("."@ =~= seq!['.']); assert(""@ =~= Seq::<char>::empty());
}
/// a clean directory prefix is empty or starts with '/' and does not end with one
pub proof fn lemma_clean_dir_shape(d: Seq<char>)
    requires clean_dir(d), d.len() > 0,
    ensures d[0] == '/', d[d.len() - 1] != '/',
    decreases d.len(),
{
    let (p, c) = choose|p: Seq<char>, c: Seq<char>| #![trigger p + slash() + c] d == p + slash() + c && p.len() < d.len() && normal_comp(c) && clean_dir(p);
    assert(d[d.len() - 1] == c[c.len() - 1]);
    if p.len() > 0 { lemma_clean_dir_shape(p); assert(d[0] == p[0]); } else { assert(d[0] == slash()[0]); }
}
/// what add_data must have recorded for the clean destination <d>/<n> (or .<d>/<n>)
pub open spec fn recorded(r: Result<(), Error>, b: PackageBuilder, d: Seq<char>, n: Seq<char>) -> bool {
    &&& r is Ok
    &&& b.files.last_key@ =~= seq!['.'] + d + slash() + n
    &&& b.files.last@ is Some
    &&& b.files.last@->0.dir@ =~= d + slash()
    &&& b.files.last@->0.base_name@ == n
    &&& b.directories.last@ =~= d + slash()
}
/// everything the proof needs to know about a clean destination, keyed on the term `d + "/" + n`
pub broadcast proof fn lemma_dest_shape(d: Seq<char>, n: Seq<char>)
    requires clean_dir(d), normal_comp(n),
    ensures
        #![trigger d + slash() + n]
        (d + slash() + n).len() > 0 && (d + slash() + n)[0] == '/',
        (seq!['.'] + (d + slash() + n)).len() >= 2 && (seq!['.'] + (d + slash() + n)).subrange(0, 2) == seq!['.', '/'] && (seq!['.'] + (d + slash() + n))[0] == '.',
        d.len() > 0 ==> d[0] == '/' && d[d.len() - 1] != '/',
        path_parent(d + slash() + n) == Some(if d.len() == 0 { slash() } else { d }),
        path_file_name(d + slash() + n) == Some(n),
        path_parent(seq!['.'] + (d + slash() + n)) == Some(seq!['.'] + d),
        path_file_name(seq!['.'] + (d + slash() + n)) == Some(n),
        path_strip_dot(seq!['.'] + d) == Some(if d.len() == 0 { d } else { d.subrange(1, d.len() as int) }),
{
    axiom_path_abs(d, n);
    axiom_path_dot(d, n);
    if d.len() > 0 { lemma_clean_dir_shape(d); assert((d + slash() + n)[0] == d[0]); } else { assert((d + slash() + n)[0] == slash()[0]); }
    assert(seq!['.'] + (d + slash() + n) =~= seq!['.'] + d + slash() + n);
    assert((seq!['.'] + (d + slash() + n)).subrange(0, 2) =~= seq!['.', '/']);
}
impl PackageBuilder {
'''),
    Fn(BUILDER, 'add_data', impl='impl PackageBuilder',
       subs=[(re.compile(r'if ([A-Za-z_][\w.]*) < ([A-Za-z_][\w.]*) =>'), r'if ts_lt(\1, \2) =>', None, 'R11-derived PartialOrd on Timestamp'),
             (re.compile(r'\b(\w+)\.starts_with\(("[^"]*")\)'), r'starts_with_str(&\1, \2)', None, 'R12-str::starts_with(literal)'),
             (re.compile(r"\b(\w+)\.starts_with\(('[^']*')\)"), r'starts_with_char(&\1, \2)', None, 'R12-str::starts_with(char)'),
             (re.compile(r"\b(\w+)\.ends_with\(('[^']*')\)"), r'ends_with_char(&\1, \2)', None, 'R12-str::ends_with(char)'),
             (re.compile(r'\bdest\.clone\(\)'), 'string_clone(&dest)', None, 'R12-String::clone'),
             (re.compile(r'\bdir\.clone\(\)'), 'string_clone(&dir)', None, 'R12-String::clone'),
             (re.compile(r'\bdest\.to_string\(\)'), 'string_clone(&dest)', None, 'R12-String::to_string'),
             (re.compile(r'format!\(\s*"([^"{}]*)\{\}([^"{}]*)",\s*(dest|dir)\s*\)'), r'format1s("\1", &\3, "\2")', None, 'R29-format!'),
             (re.compile(r'format!\(\s*"([^"{}]*)\{\}([^"{}]*)",\s*((?:(?!format!)[^;])*?\.to_string_lossy\(\))\s*,?\s*\)'), r'format1("\1", &\3, "\2")', None, 'R29-format!'),
             (re.compile(r'\|_\| Error::'), r'|_e: StripPrefixError| Error::', None, 'R23-named closure parameter'),
             ('self.files.entry(cpio_path).or_insert(entry);', 'self.files.insert_if_vacant(cpio_path, entry);', 1, 'R31-BTreeMap entry().or_insert()'),
             ret()],
       spec='''    ensures
        // C08: the digest recorded for the file is the SHA-256 of its content, the size its length, the content itself is kept
        r is Ok ==> final(self).files.offered@ is Some
            && final(self).files.offered@->0.sha_checksum@ == hex_spec(sha256_spec(content@))
            && final(self).files.offered@->0.size == content@.len()
            && final(self).files.offered@->0.content@ == content@
            // the modification time is kept as given: it is clamped to the source date of the BUILD, in prepare_data (C11)
            && final(self).files.offered@->0.modified_at == modified_at,
        // '/'-style destination "<d>/<n>": directory "<d>/", base name "<n>", archive path ".<d>/<n>"
        forall|d: Seq<char>, n: Seq<char>| clean_dir(d) && normal_comp(n) && !old(self).files.has_key(seq!['.'] + d + slash() + n)
            && options.destination@ == #[trigger] (d + slash() + n)
            ==> recorded(r, *final(self), d, n),
        // './'-style destination ".<d>/<n>": the same directory and base name, archive path as given
        forall|d: Seq<char>, n: Seq<char>| clean_dir(d) && normal_comp(n) && !old(self).files.has_key(seq!['.'] + d + slash() + n)
            && options.destination@ == seq!['.'] + #[trigger] (d + slash() + n)
            ==> recorded(r, *final(self), d, n),''',
       prologue='proof { lemma_strlits(); } broadcast use lemma_dest_shape;',
       before=[('        let entry = PackageFileEntry {', '''        proof {
            assert forall|d: Seq<char>, n: Seq<char>| clean_dir(d) && normal_comp(n)
                && (dest@ == #[trigger] (d + slash() + n) || dest@ == seq!['.'] + (d + slash() + n))
                implies dir@ =~= d + slash() && base_name@ == n && cpio_path@ =~= seq!['.'] + d + slash() + n by {
                let t = d + slash() + n;
                assert(seq!['.'] + t =~= seq!['.'] + d + slash() + n);
                if d.len() > 0 { assert(seq!['/'] + d.subrange(1, d.len() as int) =~= d); }
            }
        }
''')],
       ),
    Raw('''}
// vacuity canaries: must FAIL
pub proof fn canary_c06_axioms(d: Seq<char>, n: Seq<char>)
    requires clean_dir(d), normal_comp(n),
{
    lemma_dest_shape(d, n);
    axiom_path_abs(d, n);
    axiom_path_dot(d, n);
    assert(false);
}
pub fn canary_c06_add(b: &mut PackageBuilder, content: Vec<u8>, t: Timestamp, options: FileOptions)
    requires options.destination@ == seq!['/', 'a'], !old(b).files.has_key(seq!['.', '/', 'a']),
{
    let r = b.add_data(content, t, options);
    proof {
        let d = Seq::<char>::empty(); let n = seq!['a'];
        assert(n[0] == 'a');
        assert(normal_comp(n));
        assert(d + slash() + n =~= seq!['/', 'a']);
        assert(seq!['.'] + d + slash() + n =~= seq!['.', '/', 'a']);
        assert(recorded(r, *b, d, n));          // provable: the file is recorded under "/" + "a"
    }
    assert(b.files.last@->0.dir@ == seq!['/', '/']);   // ... and NOT under "//": must fail
}
'''),
] + TAIL

OBLIGATIONS = {'PackageBuilder::add_data': ['C06', 'C08', 'C11'],   # C11: the mtime reaches the clamp of prepare_data unchanged
               'lemma_clean_dir_shape': ['C06'], 'lemma_dest_shape': ['C06']}
CANARIES = ['canary_c06_axioms', 'canary_c06_add']
