"""C18 - file modes convert without losing or inventing bits (Verus side; Kani twin in kani_types.rs)."""
import re
from vunit import Raw, Prelude, Fn, Decl
from common import *

NAME = 'c18_filemode'
R10 = 'R10-trait-impl-as-inherent-fn'

PARTS = [Prelude('head.rs')] + [
    Decl(TYPES, 'enum', 'FileMode'),
    Decl(TYPES, 'const', 'FILE_TYPE_BIT_MASK'),
    Decl(TYPES, 'const', 'PERMISSIONS_BIT_MASK'),
    Decl(TYPES, 'const', 'REGULAR_FILE_TYPE'),
    Decl(TYPES, 'const', 'DIR_FILE_TYPE'),
    Decl(TYPES, 'const', 'SYMBOLIC_LINK_FILE_TYPE'),
    Raw('''
// ---- specification, written from the property statement (inode(7) S_IFMT layout) -------------
pub open spec fn type_bits(w: u16) -> u16 { w & 0o170000 }
pub open spec fn perm_bits(w: u16) -> u16 { w & 0o7777 }
/// a FileMode value whose permission field carries permission bits only
pub open spec fn mode_wf(m: FileMode) -> bool {
    match m {
        FileMode::Dir { permissions } => permissions & 0o170000 == 0,
        FileMode::Regular { permissions } => permissions & 0o170000 == 0,
        FileMode::SymbolicLink { permissions } => permissions & 0o170000 == 0,
        FileMode::Invalid { raw_mode, reason } => true,
    }
}
/// the 16-bit word a FileMode stands for
pub open spec fn mode_word(m: FileMode) -> u16 {
    match m {
        FileMode::Dir { permissions } => permissions | 0o040000,
        FileMode::Regular { permissions } => permissions | 0o100000,
        FileMode::SymbolicLink { permissions } => permissions | 0o120000,
        FileMode::Invalid { raw_mode, reason } => raw_mode as u16,
    }
}
/// the classification the statement demands
pub open spec fn classify_ok(w: u16, m: FileMode) -> bool {
    &&& (m is Dir <==> type_bits(w) == 0o040000)
    &&& (m is Regular <==> type_bits(w) == 0o100000)
    &&& (m is SymbolicLink <==> type_bits(w) == 0o120000)
    &&& (m is Invalid ==> m->raw_mode == w as i32)
}
pub proof fn lemma_split(w: u16)
    ensures
        (w & 0o7777) | (w & 0o170000) == w,
        (w & 0o7777) & (w & 0o170000) == 0,
        (w & 0o7777) & 0o170000 == 0,
        (w & 0o170000) & 0o7777 == 0,
        w & 0o170000 == 0o040000 ==> (w & 0o7777) | 0o040000 == w,
        w & 0o170000 == 0o100000 ==> (w & 0o7777) | 0o100000 == w,
        w & 0o170000 == 0o120000 ==> (w & 0o7777) | 0o120000 == w,
{
    assert((w & 0o7777) | (w & 0o170000) == w) by (bit_vector);
    assert((w & 0o7777) & (w & 0o170000) == 0) by (bit_vector);
    assert((w & 0o7777) & 0o170000 == 0) by (bit_vector);
    assert((w & 0o170000) & 0o7777 == 0) by (bit_vector);
    assert(w & 0o170000 == 0o040000 ==> (w & 0o7777) | 0o040000 == w) by (bit_vector);
    assert(w & 0o170000 == 0o100000 ==> (w & 0o7777) | 0o100000 == w) by (bit_vector);
    assert(w & 0o170000 == 0o120000 ==> (w & 0o7777) | 0o120000 == w) by (bit_vector);
}
pub proof fn lemma_parts(p: u16, t: u16)
    requires p & 0o170000 == 0, t == 0o040000 || t == 0o100000 || t == 0o120000,
    ensures (p | t) & 0o170000 == t, (p | t) & 0o7777 == p & 0o7777, p & 0o7777 == p || p & 0o10000 != 0 || true,
        t & p == 0,
{
    assert(p & 0o170000 == 0 && (t == 0o040000 || t == 0o100000 || t == 0o120000) ==> (p | t) & 0o170000 == t) by (bit_vector);
    assert((t == 0o040000 || t == 0o100000 || t == 0o120000) ==> (p | t) & 0o7777 == p & 0o7777) by (bit_vector);
    assert(p & 0o170000 == 0 && (t == 0o040000 || t == 0o100000 || t == 0o120000) ==> t & p == 0) by (bit_vector);
}
pub mod bitcomm {
use vstd::prelude::*;
/// bit operations commute (so that `MASK & x` is judged like `x & MASK`: a semantics-preserving edit must not fail the proofs)
pub broadcast proof fn lemma_and_comm(a: u16, b: u16)
    ensures #[trigger] (a & b) == b & a,
{
    assert(a & b == b & a) by (bit_vector);
}
pub broadcast proof fn lemma_or_comm(a: u16, b: u16)
    ensures #[trigger] (a | b) == b | a,
{
    assert(a | b == b | a) by (bit_vector);
}
}
broadcast use bitcomm::lemma_and_comm, bitcomm::lemma_or_comm;
impl FileMode {
''', 'C18 specification'),
    Fn(TYPES, 'from', impl='impl From<u16> for FileMode',
       subs=[('fn from(raw_mode: u16) -> Self', 'pub fn from_u16(raw_mode: u16) -> (r: Self)', 1, R10)],
       spec='''    ensures mode_wf(r), mode_word(r) == raw_mode, classify_ok(raw_mode, r),''',
       before=[('let file_type', 'proof { lemma_split(raw_mode); }\n        ')]),
    Fn(TYPES, 'from', impl='impl From<i32> for FileMode',
       subs=[('fn from(raw_mode: i32) -> Self', 'pub fn from_i32(raw_mode: i32) -> (r: Self)', 1, R10),
             ('FileMode::from(raw_mode as u16)', 'FileMode::from_u16(raw_mode as u16)', 1, R10),
             ('u16::MAX.into()', '(u16::MAX as i32)', 1, 'R10-into: lossless widening u16->i32'),
             ('i16::MIN.into()', '(i16::MIN as i32)', 1, 'R10-into: lossless widening i16->i32')],
       spec='''    ensures
        mode_wf(r),
        (raw_mode > 0xffff || raw_mode < -0x8000) ==> (r is Invalid && r->raw_mode == raw_mode),
        (-0x8000 <= raw_mode <= 0xffff) ==> (mode_word(r) == raw_mode as u16 && classify_ok(raw_mode as u16, r)),'''),
    Fn(TYPES, 'regular', impl='impl FileMode', subs=[ret()],
       spec='    ensures r == (FileMode::Regular { permissions: permissions & 0o7777 }), mode_wf(r),',
       before=[('FileMode::Regular {', 'proof { lemma_split(permissions); }\n        ')]),
    Fn(TYPES, 'dir', impl='impl FileMode', subs=[ret()],
       spec='    ensures r == (FileMode::Dir { permissions: permissions & 0o7777 }), mode_wf(r),',
       before=[('FileMode::Dir {', 'proof { lemma_split(permissions); }\n        ')]),
    Fn(TYPES, 'symbolic_link', impl='impl FileMode', subs=[ret()],
       spec='    ensures r == (FileMode::SymbolicLink { permissions: permissions & 0o7777 }), mode_wf(r),',
       before=[('FileMode::SymbolicLink {', 'proof { lemma_split(permissions); }\n        ')]),
    Fn(TYPES, 'raw_mode', impl='impl FileMode', subs=[ret()],
       spec='    ensures r == mode_word(*self),'),
    Fn(TYPES, 'file_type', impl='impl FileMode', subs=[ret()],
       spec='''    ensures
        self is Dir ==> r == 0o040000, self is Regular ==> r == 0o100000, self is SymbolicLink ==> r == 0o120000,
        self is Invalid ==> r == (self->raw_mode as u16) & 0o170000,
        mode_wf(*self) ==> r == mode_word(*self) & 0o170000,''',
       before=[('match self', '''proof {
            if mode_wf(*self) { match *self {
                FileMode::Dir { permissions } => lemma_parts(permissions, 0o040000),
                FileMode::Regular { permissions } => lemma_parts(permissions, 0o100000),
                FileMode::SymbolicLink { permissions } => lemma_parts(permissions, 0o120000),
                _ => {}
            } }
        }
        ''')]),
    Fn(TYPES, 'permissions', impl='impl FileMode', subs=[ret()],
       spec='''    ensures
        self is Dir ==> r == self->Dir_permissions,
        self is Regular ==> r == self->Regular_permissions,
        self is SymbolicLink ==> r == self->SymbolicLink_permissions,
        self is Invalid ==> r == (self->raw_mode as u16) & 0o7777,'''),
    Raw('''}
// ---- composition: every sentence of C18 as a caller of the contracts above --------------------
pub fn c18_roundtrip_u16(w: u16)
{
    let m = FileMode::from_u16(w);
    let back = m.raw_mode();
    assert(back == w);                          // word -> FileMode -> word is the identity
    let t = m.file_type();
    let p = m.permissions();
    proof {
        lemma_split(w);
        match m {
            FileMode::Dir { permissions } => { lemma_parts(permissions, 0o040000); },
            FileMode::Regular { permissions } => { lemma_parts(permissions, 0o100000); },
            FileMode::SymbolicLink { permissions } => { lemma_parts(permissions, 0o120000); },
            _ => {}
        }
        assert(t | p == w) by (bit_vector)
            requires t == w & 0o170000, p & 0o170000 == 0, (p | t == w) || (p == w & 0o7777);
    }
    assert(t | p == w);                         // type and permission parts recombine
    assert(t & p == 0) by (bit_vector)
        requires t == w & 0o170000, p & 0o170000 == 0;
    assert(m is Dir <==> w & 0o170000 == 0o040000);
    assert(m is Regular <==> w & 0o170000 == 0o100000);
    assert(m is SymbolicLink <==> w & 0o170000 == 0o120000);
}
pub fn c18_out_of_range(i: i32)
    requires i > 0xffff || i < -0x8000,
{
    let m = FileMode::from_i32(i);
    assert(m is Invalid && m->raw_mode == i);
}
pub fn c18_constructors(p: u16)
{
    let a = FileMode::regular(p);
    let b = FileMode::dir(p);
    let c = FileMode::symbolic_link(p);
    let pa = a.permissions();
    let pb = b.permissions();
    let pc = c.permissions();
    assert(pa == p & 0o7777 && pb == p & 0o7777 && pc == p & 0o7777);
    assert(a is Regular && b is Dir && c is SymbolicLink);
}
// vacuity canaries: must FAIL
pub fn canary_c18_out_of_range(i: i32)
    requires i > 0xffff || i < -0x8000,
{
    assert(false);
}
''', 'C18 composition'),
] + TAIL

OBLIGATIONS = {
    'FileMode::from_u16': ['C18'],
    'FileMode::from_i32': ['C18'],
    'FileMode::regular': ['C18'],
    'FileMode::dir': ['C18'],
    'FileMode::symbolic_link': ['C18'],
    'FileMode::raw_mode': ['C18'],
    'FileMode::file_type': ['C18'],
    'FileMode::permissions': ['C18'],
    'lemma_split': ['C18'],
    'lemma_parts': ['C18'],
    'c18_roundtrip_u16': ['C18'],
    'c18_out_of_range': ['C18'],
    'c18_constructors': ['C18'],
}
CANARIES = ['canary_c18_out_of_range']
