"""C09 (header part): Header::from_entries lays the records out by rpm's structural rules -
leading region tag whose trailer points back over all entries, tags in ascending order, every
entry at a type-aligned, in-range, non-overlapping offset holding exactly its encoded data."""
import re
from vunit import Raw, Prelude, Fn, Decl
from common import *

NAME = 'c09_from_entries'

PARTS = HEAD + consts('INDEX_HEADER_SIZE', 'INDEX_ENTRY_SIZE', 'HEADER_MAGIC') + io_head() + header_types() + [
    Prelude('hdrspec.rs'),
    Prelude('stdspecs.rs'),
    Raw('''
// ---- encoding of entry data in the store (rpm header format; K:k_append_* on the real append) ----
/// A-UTF8: the bytes of a Rust String (uninterpreted; never contains what `as_bytes` does not give)
pub uninterp spec fn utf8(s: Seq<char>) -> Seq<u8>;
pub open spec fn enc_u16s(v: Seq<u16>) -> Seq<u8> decreases v.len() { if v.len() == 0 { Seq::<u8>::empty() } else { enc_u16s(v.drop_last()) + be16(v.last()) } }
pub open spec fn enc_u32s(v: Seq<u32>) -> Seq<u8> decreases v.len() { if v.len() == 0 { Seq::<u8>::empty() } else { enc_u32s(v.drop_last()) + be32(v.last()) } }
pub open spec fn enc_u64s(v: Seq<u64>) -> Seq<u8> decreases v.len() { if v.len() == 0 { Seq::<u8>::empty() } else { enc_u64s(v.drop_last()) + be64(v.last()) } }
pub open spec fn enc_strs(v: Seq<String>) -> Seq<u8> decreases v.len() { if v.len() == 0 { Seq::<u8>::empty() } else { enc_strs(v.drop_last()) + utf8(v.last()@) + seq![0u8] } }
pub open spec fn enc_data(d: IndexData) -> Seq<u8> {
    match d {
        IndexData::Null => Seq::<u8>::empty(),
        IndexData::Char(v) => v@,
        IndexData::Int8(v) => v@,
        IndexData::Bin(v) => v@,
        IndexData::Int16(v) => enc_u16s(v@),
        IndexData::Int32(v) => enc_u32s(v@),
        IndexData::Int64(v) => enc_u64s(v@),
        IndexData::StringTag(s) => utf8(s@) + seq![0u8],
        IndexData::StringArray(v) => enc_strs(v@),
        IndexData::I18NString(v) => enc_strs(v@),
    }
}
/// rpm type alignment: INT16 2, INT32 4, INT64 8, everything else 1
pub open spec fn align_of(d: IndexData) -> int {
    match d { IndexData::Int16(_) => 2, IndexData::Int32(_) => 4, IndexData::Int64(_) => 8, _ => 1 }
}
pub open spec fn align_pad(len: int, a: int) -> int { (a - len % a) % a }
impl IndexData {
    /// V:c09_append:IndexData::append (proved there on the verbatim body, any sizes); K:k_append_* cross-check the
    /// same assertions on the real function with the real std iterators for small sizes
    #[verifier::external_body]
    pub fn append(&self, store: &mut Vec<u8>) -> (r: u32)
        ensures
            r as int == align_pad(old(store)@.len() as int, align_of(*self)),
            final(store)@ == old(store)@ + zeros(r as int) + enc_data(*self),
    { unimplemented!() }
'''),
    Fn(HDR, 'num_items', impl='impl IndexData', subs=[ret()],
       spec='''    ensures match *self {
        IndexData::Null => r == 0,
        IndexData::StringTag(_) => r == 1,
        IndexData::Bin(v) => v@.len() <= 0xffff_ffff ==> r == v@.len(),
        _ => true,
    },'''),
    Fn(HDR, 'type_as_u32', impl='impl IndexData', subs=[ret()],
       spec='    ensures r == ty_code(*self),'),
    Raw('}\nimpl IndexHeader {\n'),
    Fn(HDR, 'new', impl='impl IndexHeader', subs=[ret()],
       spec='    ensures r.num_entries == num_entries, r.data_section_size == data_len, r.magic@ == HEADER_MAGIC@, r.version == 1,'),
    Raw('''}
impl<T: Tag> IndexEntry<T> {
    /// proved in unit c14_writers (V:IndexEntry::write_index) for any sink; here for the Vec sink
    #[verifier::external_body]
    pub fn write_index(&self, out: &mut Vec<u8>) -> (r: Result<(), Error>)
        ensures r is Ok, final(out)@ == old(out)@ + ser_entry_of(*self),
    { unimplemented!() }
'''),
    Fn(HDR, 'new', impl='impl<T: Tag> IndexEntry<T>', subs=[ret()],
       spec='''    ensures r.tag == tag.spec_to_u32(), r.offset == offset, r.data == data,
        (data is Bin && data->Bin_0@.len() <= 0xffff_ffff) ==> r.num_items == data->Bin_0@.len(),'''),
    Raw('}\nimpl<T: Tag> Header<T> {\n'),
    Fn(HDR, 'create_region_tag', impl='impl<T> Header<T> where T: Tag,',
       subs=[ret(), ('vec![]', 'Vec::<u8>::new()', None, 'R9-type-annotation'),
             ('.expect("unable to write to memory buffer")', '.unwrap()', None, 'R4-expect-message')],
       spec='''    requires 0 <= records_count < 0x400_0000,
    ensures
        r.tag == tag.spec_to_u32(), r.offset == offset, r.num_items == 16,
        r.data is Bin,
        // the 16-byte trailer: same tag, type BIN, offset -16 * (entries incl. the region entry), count 16
        r.data->Bin_0@ == ser_entry(tag.spec_to_u32(), 7, (-16 * (records_count + 1)) as i32, 16),''',
       before=[('let mut hie', '''proof {
            assert((records_count + 1) * -(16i32) == -16 * (records_count + 1)) by (nonlinear_arith)
                requires 0 <= records_count < 0x400_0000;
            assert(INDEX_ENTRY_SIZE == 16);
        }
        ''')]),
    Fn(HDR, 'from_entries', impl='impl<T> Header<T> where T: Tag,',
       subs=[ret(),
             ('actual_records.sort_by(|e1, e2| e1.tag.cmp(&e2.tag));',
              '''actual_records.sort_by(|e1: &IndexEntry<T>, e2: &IndexEntry<T>| -> (o: core::cmp::Ordering)
                ensures (o is Greater) == (e1.tag > e2.tag)
                { e1.tag.cmp(&e2.tag) });''', 1, 'closure-contract (spliced annotation; closure body verbatim)'),
             ('let mut store = Vec::new();', 'let mut store = Vec::<u8>::new();', None, 'R9-type-annotation'),
             ],
       index_loops={0: ('vj', '''            invariant
                0 <= vj <= actual_records@.len(),
                actual_records@.len() == sorted0.len(),
                layout_len(sorted0) <= 0x7fff_0000,
                forall|j: int| 0 <= j < sorted0.len() ==> {
                    &&& (#[trigger] actual_records@[j]).tag == sorted0[j].tag
                    &&& actual_records@[j].data == sorted0[j].data
                    &&& actual_records@[j].num_items == sorted0[j].num_items
                },
                forall|j: int| 0 <= j < vj ==> (#[trigger] actual_records@[j]).offset as int == offset_at(sorted0, j),
                store@ == layout_bytes(sorted0.take(vj as int)),
                store@.len() == layout_len(sorted0.take(vj as int)),
            decreases actual_records@.len() - vj,
''', '''    proof {
                lemma_layout_step(sorted0, vj as int);
            }
        ''')},
       spec='''    requires
        actual_records@.len() < 0x3ff_fff0,
        // the laid-out data fits the i32 offsets of the format, whatever order sorting produces
        forall|p: Seq<IndexEntry<T>>| #[trigger] p.to_multiset() == actual_records@.to_multiset() ==> layout_len(p) <= 0x7fff_0000,
    ensures
        from_entries_ok(actual_records@, region_tag.spec_to_u32(), r),''',
       prologue='let ghost input0 = actual_records@;',
       before=[('let mut store', '''let ghost sorted0 = actual_records@;
        proof {
            lemma_same_elements(input0, sorted0);
            assert(layout_len(sorted0) <= 0x7fff_0000);
            assert(sorted0.take(0) =~= Seq::<IndexEntry<T>>::empty());
            lemma_layout_empty::<T>();
            assert forall|i: int, j: int| 0 <= i < j < sorted0.len() implies sorted0[i].tag <= sorted0[j].tag by {
                let e1 = &sorted0[i];
                let e2 = &sorted0[j];
            }
        }
        '''),
               ('record.offset = store.len() as i32;', '''proof {
                lemma_layout_step(sorted0, vj as int);
                lemma_layout_mono(sorted0, vj as int + 1);
            }
            '''),
               ('let region_tag =', '''proof {
            assert(sorted0.take(sorted0.len() as int) =~= sorted0);
        }
        let ghost body = store@;
        '''),
               ('let mut all_records', 'let ghost recs = actual_records@;\n        let ghost rt = region_tag;\n        '),
               ('let index_header = IndexHeader::new(', '''proof {
            assert(all_records@ =~= seq![rt] + recs);
            assert(all_records@.subrange(1, all_records@.len() as int) =~= recs);
            // the records carry the data / tags of the sorted input and the laid-out offsets
            assert(recs.len() == sorted0.len());
            lemma_layout_same(recs, sorted0);
            assert forall|k: int| 0 <= k < recs.len() implies (#[trigger] recs[k]).offset as int == offset_at(recs, k) by {
                lemma_offset_same(recs, sorted0, k);
            }
            assert forall|i: int| 0 <= i < input0.len() implies has_payload(recs, #[trigger] input0[i]) by {
                assert(sorted0.contains(input0[i]));
                let j = choose|j: int| 0 <= j < sorted0.len() && sorted0[j] == input0[i];
                assert(same_payload(input0[i], recs[j]));
            }
            assert forall|j: int| 0 <= j < recs.len() implies has_payload(input0, #[trigger] recs[j]) by {
                assert(input0.contains(sorted0[j]));
                let i = choose|i: int| 0 <= i < input0.len() && input0[i] == sorted0[j];
                assert(same_payload(recs[j], input0[i]));
            }
        }
        ''')]),
    Raw('''}
// ---- the layout from_entries must produce (rpm header rules, C09) -------------------------------
/// length of the store after laying out the records of p in order
#[verifier::opaque]
pub open spec fn layout_len<T: Tag>(p: Seq<IndexEntry<T>>) -> int
    decreases p.len(),
{
    if p.len() == 0 { 0 } else {
        let l = layout_len(p.drop_last());
        l + align_pad(l, align_of(p.last().data)) + enc_data(p.last().data).len()
    }
}
#[verifier::opaque]
pub open spec fn layout_bytes<T: Tag>(p: Seq<IndexEntry<T>>) -> Seq<u8>
    decreases p.len(),
{
    if p.len() == 0 { Seq::<u8>::empty() } else {
        let b = layout_bytes(p.drop_last());
        b + zeros(align_pad(b.len() as int, align_of(p.last().data))) + enc_data(p.last().data)
    }
}
/// the offset record k gets: end of the previous records, rounded up to its type alignment
pub open spec fn offset_at<T: Tag>(p: Seq<IndexEntry<T>>, k: int) -> int {
    let l = layout_len(p.take(k));
    l + align_pad(l, align_of(p[k].data))
}
pub proof fn lemma_align(l: int, a: int)
    requires l >= 0, a == 1 || a == 2 || a == 4 || a == 8,
    ensures 0 <= align_pad(l, a) < a, (l + align_pad(l, a)) % a == 0,
{
    let q = l / a;
    let r = l % a;
    vstd::arithmetic::div_mod::lemma_fundamental_div_mod(l, a);
    vstd::arithmetic::div_mod::lemma_mod_pos_bound(l, a);
    if r == 0 {
        vstd::arithmetic::div_mod::lemma_mod_self_0(a);
        assert(align_pad(l, a) == 0);
        vstd::arithmetic::div_mod::lemma_mod_multiples_basic(q, a);
        assert(l == q * a) by (nonlinear_arith) requires l == a * q + r, r == 0;
    } else {
        vstd::arithmetic::div_mod::lemma_small_mod((a - r) as nat, a as nat);
        assert(align_pad(l, a) == a - r);
        assert(l + (a - r) == (q + 1) * a) by (nonlinear_arith) requires l == a * q + r;
        vstd::arithmetic::div_mod::lemma_mod_multiples_basic(q + 1, a);
    }
}
pub proof fn lemma_layout_step<T: Tag>(p: Seq<IndexEntry<T>>, k: int)
    requires 0 <= k < p.len(),
    ensures
        layout_len(p.take(k + 1)) == offset_at(p, k) + enc_data(p[k].data).len(),
        layout_bytes(p.take(k + 1)) == layout_bytes(p.take(k)) + zeros(align_pad(layout_bytes(p.take(k)).len() as int, align_of(p[k].data))) + enc_data(p[k].data),
        layout_bytes(p.take(k)).len() == layout_len(p.take(k)),
        0 <= align_pad(layout_len(p.take(k)), align_of(p[k].data)) < 8,
        offset_at(p, k) % align_of(p[k].data) == 0,
{
    reveal_with_fuel(layout_len, 2);
    reveal_with_fuel(layout_bytes, 2);
    assert(p.take(k + 1).drop_last() =~= p.take(k));
    assert(p.take(k + 1).last() == p[k]);
    lemma_layout_bytes_len(p.take(k));
    lemma_align(layout_len(p.take(k)), align_of(p[k].data));
}
pub proof fn lemma_layout_empty<T: Tag>()
    ensures layout_len(Seq::<IndexEntry<T>>::empty()) == 0, layout_bytes(Seq::<IndexEntry<T>>::empty()) == Seq::<u8>::empty(),
{
    reveal_with_fuel(layout_len, 2);
    reveal_with_fuel(layout_bytes, 2);
}
pub proof fn lemma_layout_bytes_len<T: Tag>(p: Seq<IndexEntry<T>>)
    ensures layout_bytes(p).len() == layout_len(p), layout_len(p) >= 0,
    decreases p.len(),
{
    reveal_with_fuel(layout_len, 2);
    reveal_with_fuel(layout_bytes, 2);
    if p.len() > 0 { lemma_layout_bytes_len(p.drop_last()); }
}
pub proof fn lemma_layout_mono<T: Tag>(p: Seq<IndexEntry<T>>, k: int)
    requires 0 <= k <= p.len(),
    ensures 0 <= layout_len(p.take(k)) <= layout_len(p),
    decreases p.len() - k,
{
    lemma_layout_bytes_len(p.take(k));
    if k == p.len() { assert(p.take(k) =~= p); } else {
        lemma_layout_step(p, k);
        lemma_layout_mono(p, k + 1);
    }
}
/// layout depends only on the data of the records
pub proof fn lemma_layout_same<T: Tag>(a: Seq<IndexEntry<T>>, b: Seq<IndexEntry<T>>)
    requires a.len() == b.len(), forall|j: int| 0 <= j < a.len() ==> (#[trigger] a[j]).data == b[j].data,
    ensures layout_len(a) == layout_len(b), layout_bytes(a) == layout_bytes(b),
    decreases a.len(),
{
    reveal_with_fuel(layout_len, 2);
    reveal_with_fuel(layout_bytes, 2);
    if a.len() > 0 {
        lemma_layout_same(a.drop_last(), b.drop_last());
    }
}
pub proof fn lemma_offset_same<T: Tag>(a: Seq<IndexEntry<T>>, b: Seq<IndexEntry<T>>, k: int)
    requires a.len() == b.len(), 0 <= k < a.len(), forall|j: int| 0 <= j < a.len() ==> (#[trigger] a[j]).data == b[j].data,
    ensures offset_at(a, k) == offset_at(b, k),
{
    lemma_layout_same(a.take(k), b.take(k));
}
pub open spec fn same_payload<T: Tag>(a: IndexEntry<T>, b: IndexEntry<T>) -> bool {
    a.tag == b.tag && a.data == b.data && a.num_items == b.num_items
}
pub open spec fn has_payload<T: Tag>(s: Seq<IndexEntry<T>>, e: IndexEntry<T>) -> bool {
    exists|j: int| 0 <= j < s.len() && same_payload(e, #[trigger] s[j])
}
/// two sequences with equal multisets contain the same elements
pub proof fn lemma_same_elements<T: Tag>(a: Seq<IndexEntry<T>>, b: Seq<IndexEntry<T>>)
    requires a.to_multiset() == b.to_multiset(),
    ensures
        a.len() == b.len(),
        forall|i: int| 0 <= i < a.len() ==> b.contains(#[trigger] a[i]),
        forall|j: int| 0 <= j < b.len() ==> a.contains(#[trigger] b[j]),
{
    a.to_multiset_ensures();
    b.to_multiset_ensures();
    assert forall|i: int| 0 <= i < a.len() implies b.contains(#[trigger] a[i]) by {
        assert(a.contains(a[i]));
        assert(a.to_multiset().count(a[i]) > 0);
    }
    assert forall|j: int| 0 <= j < b.len() implies a.contains(#[trigger] b[j]) by {
        assert(b.contains(b[j]));
        assert(b.to_multiset().count(b[j]) > 0);
    }
}
/// C09, header part: what rpm's headerVerifyInfo demands of the emitted header
pub open spec fn from_entries_ok<T: Tag>(input: Seq<IndexEntry<T>>, region: u32, h: Header<T>) -> bool {
    let n = input.len() as int;
    let es = h.index_entries@;
    let recs = es.subrange(1, es.len() as int);
    let body = layout_bytes(recs);
    &&& wf(h)                                               // intro counts describe entries and store
    &&& es.len() == n + 1
    // records: the input records (tag, data, count untouched - only offsets are assigned) ...
    &&& recs.len() == n
    &&& forall|i: int| 0 <= i < n ==> has_payload(recs, #[trigger] input[i])
    &&& forall|j: int| 0 <= j < n ==> has_payload(input, #[trigger] recs[j])
    // ... with tags in ascending order
    &&& forall|i: int, j: int| 0 <= i < j < n ==> (#[trigger] recs[i]).tag <= (#[trigger] recs[j]).tag
    // every record sits at the type-aligned end of its predecessors; the store is exactly the
    // aligned concatenation of the encoded data (hence in range and non-overlapping) ...
    &&& forall|k: int| 0 <= k < n ==> (#[trigger] recs[k]).offset as int == offset_at(recs, k)
    // ... followed by the 16-byte region trailer
    &&& h.store@ == body + ser_entry(region, 7, (-16 * (n + 1)) as i32, 16)
    // entry 0 is the region tag: type BIN, count 16, pointing at the trailer
    &&& es[0].tag == region && es[0].data is Bin && es[0].num_items == 16
    &&& es[0].offset as int == body.len()
}
// vacuity canary: must FAIL
pub fn canary_c09_region<T: Tag>(t: T)
{
    let r = Header::<T>::create_region_tag(t, 3, 40);
    assert(false);
}
'''),
] + TAIL

OBLIGATIONS = {
    'IndexData::num_items': ['C09'],
    'IndexData::type_as_u32': ['C09'],
    'IndexHeader::new': ['C09'],
    'IndexEntry::new': ['C09'],
    'Header::create_region_tag': ['C09'],
    'Header::from_entries': ['C09', 'C16', 'C06'],
    'lemma_layout_step': ['C09'],
    'lemma_layout_bytes_len': ['C09'],
    'lemma_layout_mono': ['C09'],
    'lemma_layout_empty': ['C09'],
    'lemma_layout_same': ['C09'],
    'lemma_align': ['C09'],
    'lemma_same_elements': ['C09'],
    'lemma_offset_same': ['C09'],
}
CANARIES = ['canary_c09_region']
