"""C20 - timestamp conversion is exact inside the 32-bit range and an error outside."""
import re
from vunit import Raw, Prelude, Fn, Decl
from common import *

NAME = 'c20_timestamp'
TS = 'src/rpm/timestamp.rs'
R10 = 'R10-trait-impl-as-inherent-fn'

PARTS = [Prelude('head.rs')] + [
    Decl(TS, 'struct', 'Timestamp'),
    Decl(TS, 'enum', 'TimestampError'),
    Raw('''
// ---- A-TIME: the DOCUMENTED behaviour of std::time and chrono (stand-in types) ---------------
// An instant is a mathematical number of nanoseconds relative to 1970-01-01T00:00:00Z.
pub struct Duration { pub secs: u64, pub nanos: u32 }
impl Duration {
    pub open spec fn ns(&self) -> int { self.secs as int * 1_000_000_000 + self.nanos as int }
    pub open spec fn wf(&self) -> bool { self.nanos < 1_000_000_000 }
    /// std: "Returns the number of whole seconds contained by this Duration."
    #[verifier::external_body]
    pub fn as_secs(&self) -> (r: u64) ensures r == self.secs { unimplemented!() }
}
pub struct SystemTimeError {}
pub struct SystemTime { pub secs: i64, pub nanos: u32 }
impl SystemTime {
    pub const UNIX_EPOCH: SystemTime = SystemTime { secs: 0, nanos: 0 };
    /// nanoseconds since the epoch (negative before it); nanos < 1e9 is std's representation invariant
    pub open spec fn ns(&self) -> int { self.secs as int * 1_000_000_000 + self.nanos as int }
    pub open spec fn wf(&self) -> bool { self.nanos < 1_000_000_000 }
    /// std: "Returns the amount of time elapsed from an earlier point in time ... returns Err if
    /// `earlier` is later than self"
    #[verifier::external_body]
    pub fn duration_since(&self, earlier: SystemTime) -> (r: Result<Duration, SystemTimeError>)
        requires self.wf(), earlier.wf(),
        ensures
            r is Ok <==> self.ns() >= earlier.ns(),
            r is Ok ==> r->Ok_0.wf() && r->Ok_0.ns() == self.ns() - earlier.ns(),
    { unimplemented!() }
}
pub mod chrono {
    use super::*;
    /// a zone has a UTC offset (for a fixed-offset zone a constant; any value here); Utc has offset 0
    pub trait TimeZone { spec fn offset_secs(&self) -> int; }
    pub struct Utc {}
    impl TimeZone for Utc { open spec fn offset_secs(&self) -> int { 0 } }
    /// chrono::NaiveDateTime: a wall-clock reading without a zone
    pub struct NaiveDateTime { pub secs: i64, pub nanos: u32 }
    impl NaiveDateTime {
        /// chrono: "Converts the NaiveDateTime into the timezone-aware DateTime<Utc>" (the reading is taken as UTC)
        #[verifier::external_body]
        pub fn and_utc(&self) -> (r: DateTime<Utc>) ensures r.secs == self.secs, r.nanos == self.nanos { unimplemented!() }
    }
    /// chrono::TimeDelta: a signed span of time; `num_seconds` / `num_milliseconds` return the number of WHOLE units,
    /// i.e. they truncate towards zero (-0.5 s has 0 whole seconds)
    pub struct TimeDelta { pub ns: Ghost<int> }
    pub open spec fn trunc_div(a: int, d: int) -> int { if a >= 0 { a / d } else { -((-a) / d) } }
    impl TimeDelta {
        #[verifier::external_body]
        pub fn num_seconds(&self) -> (r: i64)
            ensures r == trunc_div(self.ns@, 1_000_000_000) { unimplemented!() }
        #[verifier::external_body]
        pub fn num_milliseconds(&self) -> (r: i64)
            requires -9_000_000_000_000_000_000_000_000 < self.ns@ < 9_000_000_000_000_000_000_000_000,
            ensures r == trunc_div(self.ns@, 1_000_000) { unimplemented!() }
    }
    /// an instant (zone-independent) plus a zone used only for display
    pub struct DateTime<TZ: TimeZone> { pub secs: i64, pub nanos: u32, pub tz: TZ }
    impl<TZ: TimeZone> DateTime<TZ> {
        pub open spec fn ns(&self) -> int { self.secs as int * 1_000_000_000 + self.nanos as int }
        pub open spec fn wf(&self) -> bool { self.nanos < 1_000_000_000 }
        /// chrono: "Changes the associated time zone. The returned DateTime references the same
        /// instant of time from the perspective of the provided time zone."
        #[verifier::external_body]
        pub fn with_timezone(&self, tz: &Utc) -> (r: DateTime<Utc>)
            ensures r.secs == self.secs, r.nanos == self.nanos,
        { unimplemented!() }
        /// chrono: "Returns a view to the naive UTC datetime" / "... naive local datetime" (= UTC reading + zone offset)
        #[verifier::external_body]
        pub fn naive_utc(&self) -> (r: NaiveDateTime) ensures r.secs == self.secs, r.nanos == self.nanos { unimplemented!() }
        #[verifier::external_body]
        pub fn naive_local(&self) -> (r: NaiveDateTime) ensures r.secs as int == self.secs + self.tz.offset_secs(), r.nanos == self.nanos { unimplemented!() }
        /// chrono: "Returns the number of non-leap seconds since January 1, 1970 0:00:00 UTC"
        /// (floor: instants before the epoch give negative values)
        #[verifier::external_body]
        pub fn timestamp(&self) -> (r: i64) ensures r == self.secs { unimplemented!() }
        /// chrono: "Returns the number of non-leap-milliseconds since January 1, 1970 UTC" (floor)
        #[verifier::external_body]
        pub fn timestamp_millis(&self) -> (r: i64)
            requires -9_000_000_000_000_000 < self.secs < 9_000_000_000_000_000,
            ensures r == self.secs * 1000 + (self.nanos / 1_000_000) as int { unimplemented!() }
        /// chrono: "Subtracts another DateTime from the current date and time": the signed difference of the instants
        #[verifier::external_body]
        pub fn signed_duration_since<TZ2: TimeZone>(self, rhs: DateTime<TZ2>) -> (r: TimeDelta)
            ensures r.ns@ == self.ns() - rhs.ns() { unimplemented!() }
        /// chrono: "Returns the number of nanoseconds since the last second boundary"
        #[verifier::external_body]
        pub fn timestamp_subsec_nanos(&self) -> (r: u32) ensures r == self.nanos { unimplemented!() }
    }
}
impl chrono::DateTime<chrono::Utc> {
    pub const UNIX_EPOCH: chrono::DateTime<chrono::Utc> = chrono::DateTime { secs: 0, nanos: 0, tz: chrono::Utc {} };
}
pub assume_specification<T, E, U, F>[ Result::<T, E>::and_then ](r: Result<T, E>, op: F) -> (res: Result<U, E>)
    where F: FnOnce(T) -> Result<U, E> + core::marker::Destruct,
    requires r is Ok ==> op.requires((r->Ok_0,)),
    ensures match r { Ok(t) => op.ensures((t,), res), Err(e) => res == Err::<U, E>(e) };

// ---- C20, written from the statement ----------------------------------------------------------
/// whole seconds since the epoch (floor) of an instant given in nanoseconds
pub open spec fn whole_secs(ns: int) -> int { ns / 1_000_000_000 }
pub open spec fn conv_ok(ns: int, r: Result<Timestamp, TimestampError>) -> bool {
    let s = whole_secs(ns);
    &&& (r is Ok <==> (0 <= s < 0x1_0000_0000))
    &&& (r is Ok ==> r->Ok_0.0 as int == s)
    &&& ((r is Err && r->Err_0 is Underflow) <==> s < 0)
    &&& ((r is Err && r->Err_0 is Overflow) <==> s >= 0x1_0000_0000)
}
impl Timestamp {
'''),
    Fn(TS, 'try_from', impl='impl TryFrom<SystemTime> for Timestamp',
       subs=[('fn try_from(st: SystemTime) -> Result<Timestamp, Self::Error>', 'pub fn try_from_system_time(st: SystemTime) -> (r: Result<Timestamp, TimestampError>)', 1, R10),
             ('.map_err(|_| TimestampError::Underflow)', '.map_err(|_e| -> (o: TimestampError) ensures o is Underflow { TimestampError::Underflow })', 1, 'closure-contract (spliced annotation; closure body verbatim)'),
             ('.and_then(|t| t.as_secs().try_into().map_err(|_| TimestampError::Overflow))',
              '''.and_then(|t: Duration| -> (o: Result<u32, TimestampError>)
                ensures (o is Ok <==> t.secs <= 0xffff_ffff), o is Ok ==> o->Ok_0 == t.secs, o is Err ==> o->Err_0 is Overflow
                { t.as_secs().try_into().map_err(|_e| -> (o2: TimestampError) ensures o2 is Overflow { TimestampError::Overflow }) })''', 1, 'closure-contract (spliced annotation; closure body verbatim)'),
             ('.map(Timestamp)', '.map(|x: u32| -> (o: Timestamp) ensures o.0 == x { Timestamp(x) })', 1, 'R23-constructor-as-function-value + closure-contract (spliced annotation; closure body verbatim)')],
       spec='''    requires st.wf(),
    ensures conv_ok(st.ns(), r),''',
       prologue='''proof {
            // floor(ns / 1e9) of secs * 1e9 + nanos with 0 <= nanos < 1e9 is secs
            assert forall|s: int, n: int| 0 <= n < 1_000_000_000 implies #[trigger] ((s * 1_000_000_000 + n) / 1_000_000_000) == s by {
                vstd::arithmetic::div_mod::lemma_fundamental_div_mod_converse(s * 1_000_000_000 + n, 1_000_000_000, s, n);
            }
        }'''),
    Fn(TS, 'try_from', impl='impl<TZ: chrono::TimeZone> TryFrom<chrono::DateTime<TZ>> for Timestamp',
       subs=[('fn try_from(dt: chrono::DateTime<TZ>) -> Result<Timestamp, Self::Error>', 'pub fn try_from_chrono<TZ: chrono::TimeZone>(dt: chrono::DateTime<TZ>) -> (r: Result<Timestamp, TimestampError>)', 1, R10),
             ('.map_err(|_| TimestampError::Overflow)', '.map_err(|_e| -> (o: TimestampError) ensures o is Overflow { TimestampError::Overflow })', 1, 'closure-contract (spliced annotation; closure body verbatim)'),
             ('.map(Timestamp)', '.map(|x: u32| -> (o: Timestamp) ensures o.0 == x { Timestamp(x) })', 1, 'R23-constructor-as-function-value + closure-contract (spliced annotation; closure body verbatim)'),
             ('&chrono::Utc', '&chrono::Utc {}', None, 'R23-unit-struct-value')],
       spec='''    requires dt.wf(),
    ensures conv_ok(dt.ns(), r),''',
       prologue='''proof {
            vstd::arithmetic::div_mod::lemma_fundamental_div_mod_converse(dt.ns(), 1_000_000_000, dt.secs as int, dt.nanos as int);
        }'''),
    Raw('''}
/// "preserves ordering": conversion is monotone on the instants it accepts
pub fn c20_monotone(a: SystemTime, b: SystemTime)
    requires a.wf(), b.wf(), a.ns() <= b.ns(),
{
    let ra = Timestamp::try_from_system_time(a);
    let rb = Timestamp::try_from_system_time(b);
    proof {
        vstd::arithmetic::div_mod::lemma_div_is_ordered(a.ns(), b.ns(), 1_000_000_000);
    }
    assert(ra is Ok && rb is Ok ==> ra->Ok_0.0 <= rb->Ok_0.0);
}
// vacuity canary: must FAIL
pub fn canary_c20(a: SystemTime)
    requires a.wf(),
{
    let r = Timestamp::try_from_system_time(a);
    assert(r is Err);
}
'''),
] + TAIL

OBLIGATIONS = {
    'Timestamp::try_from_system_time': ['C20', 'C11'],   # C11: the source date given to the builder / signer is converted exactly
    'Timestamp::try_from_chrono': ['C20', 'C11'],
    'c20_monotone': ['C20'],
}
CANARIES = ['canary_c20']
