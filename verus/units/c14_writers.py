"""C14 / C01 write side: every serialiser emits exactly the canonical bytes on Ok and a prefix
of them on Err, for every sink obeying the std::io::Write contract."""
import re
from vunit import Raw, Prelude, Fn, Decl
from common import *

NAME = 'c14_writers'

IMPLW = ('&mut impl std::io::Write', '&mut impl VWrite', 1, R2)
IMPLW2 = ('&mut impl io::Write', '&mut impl VWrite', 1, R2)

PARTS = HEAD + consts('LEAD_SIZE', 'INDEX_HEADER_SIZE', 'INDEX_ENTRY_SIZE', 'HEADER_MAGIC', 'RPM_MAGIC') + io_head() + header_types() + [
    Prelude('hdrspec.rs'),
    Prelude('onto.rs'),
    Decl(LEAD, 'struct', 'Lead'),
    tag_instances(),
    Decl(PKG, 'struct', 'PackageMetadata'),
    Decl(PKG, 'struct', 'Package'),
    Raw('''
#[verifier::opaque]
pub open spec fn ser_lead_onto(p: Seq<u8>, l: Lead) -> Seq<u8> {
    p + l.magic@ + seq![l.major] + seq![l.minor] + be16(l.package_type) + be16(l.arch) + l.name@
      + be16(l.os) + be16(l.signature_type) + l.reserved@
}
#[verifier::opaque]
pub open spec fn ser_meta_onto(p: Seq<u8>, m: PackageMetadata) -> Seq<u8> {
    ser_header_onto(ser_sig_onto(ser_lead_onto(p, m.lead), m.signature), m.header)
}
pub open spec fn ser_pkg_onto(p: Seq<u8>, k: Package) -> Seq<u8> {
    ser_meta_onto(p, k.metadata) + k.content@
}
pub proof fn lemma_lead_onto_grow(p: Seq<u8>, l: Lead)
    ensures pre(p, ser_lead_onto(p, l)), ser_lead_onto(p, l).len() == p.len() + 96,
{
    reveal(ser_lead_onto);
}
pub proof fn lemma_pre_trans(a: Seq<u8>, b: Seq<u8>, c: Seq<u8>)
    requires pre(a, b), pre(b, c),
    ensures pre(a, c),
{
}
pub proof fn lemma_meta_onto_grow(p: Seq<u8>, m: PackageMetadata)
    ensures
        pre(p, ser_lead_onto(p, m.lead)),
        pre(ser_lead_onto(p, m.lead), ser_sig_onto(ser_lead_onto(p, m.lead), m.signature)),
        pre(ser_sig_onto(ser_lead_onto(p, m.lead), m.signature), ser_meta_onto(p, m)),
        pre(ser_lead_onto(p, m.lead), ser_meta_onto(p, m)),
        pre(p, ser_meta_onto(p, m)),
{
    reveal(ser_meta_onto);
    let p1 = ser_lead_onto(p, m.lead);
    let p2 = ser_sig_onto(p1, m.signature);
    lemma_lead_onto_grow(p, m.lead);
    lemma_header_onto_grow(p1, m.signature);
    lemma_header_onto_grow(p2, m.header);
    lemma_pre_trans(p1, p2, ser_meta_onto(p, m));
    lemma_pre_trans(p, p1, ser_meta_onto(p, m));
}
impl IndexData {
'''),
    Fn(HDR, 'type_as_u32', impl='impl IndexData', subs=[ret()],
       spec='    ensures r == ty_code(*self),'),
    # not called by the writers on the pinned tree; under contract so that an edit that starts
    # using it (instead of the parsed count) is judged rather than rejected
    Fn(HDR, 'num_items', impl='impl IndexData', subs=[ret()],
       spec='''    ensures r == data_count(*self),'''),
    Raw('}\nimpl IndexHeader {\n'),
    Fn(HDR, 'write', impl='impl IndexHeader',
       subs=[('W: std::io::Write', 'W: VWrite', 1, R2), TO_BE, ret()],
       spec=WRITE_POST % dict(onto='ser_ih_onto(old(out).sunk(), *self)'),
       before=[('out.write_all(&self.magic)?;', 'proof { reveal(ser_ih_onto); }\n        ')]),
    Raw('}\nimpl<T: Tag> IndexEntry<T> {\n'),
    Fn(HDR, 'write_index', impl='impl<T: Tag> IndexEntry<T>',
       subs=[IMPLW, TO_BE, ret(),
             (re.compile(r'debug_assert_eq!\(\s*INDEX_ENTRY_SIZE as usize, written,\s*"[^"]*"\s*\);'),
              'assert(INDEX_ENTRY_SIZE as usize == written);', None, 'R6-debug_assert->proof obligation')],
       spec=WRITE_POST % dict(onto='ser_entry_onto(old(out).sunk(), *self)'),
       prologue='proof { reveal(ser_entry_onto); }'),
    Raw('}\nimpl<T: Tag> Header<T> {\n'),
    Fn(HDR, 'write', impl='impl<T> Header<T> where T: Tag,',
       subs=[IMPLW, ret(), ('for entry in &self.index_entries', 'for entry in vi: &self.index_entries', 1, 'R15-for-loop-ghost-iterator-name')],
       spec=WRITE_POST % dict(onto='ser_header_onto(old(out).sunk(), *self)'),
       loops={0: '''            invariant
                out.sunk() == ser_entries_onto(ser_ih_onto(old(out).sunk(), self.index_header), self.index_entries@.take(vi.index@)),
                0 <= vi.index@ <= self.index_entries@.len(),
                out.infallible() == old(out).infallible(),
'''},
       before=[('self.index_header.write(out)?;', '''proof {
            reveal(ser_header_onto);
            lemma_header_onto_grow(old(out).sunk(), *self);
            lemma_ih_onto_grow(old(out).sunk(), self.index_header);
            assert(self.index_entries@.take(0) =~= Seq::<IndexEntry<T>>::empty());
        }
        '''),
               ('entry.write_index(out)?;', '''proof {
                let p0 = ser_ih_onto(old(out).sunk(), self.index_header);
                let es = self.index_entries@;
                let i = vi.index@;
                reveal(ser_header_onto);
                lemma_ih_onto_grow(old(out).sunk(), self.index_header);
                lemma_entries_onto_grow(p0, es, i);
                lemma_entries_onto_grow(p0, es, i + 1);
                assert(es.take(i + 1).drop_last() =~= es.take(i));
                assert(es.take(i + 1).last() == es[i]);
                // the state after this entry is a prefix of the whole header
                lemma_pre_trans(old(out).sunk(), p0, ser_entries_onto(p0, es.take(i)));
                lemma_pre_trans(ser_entries_onto(p0, es.take(i + 1)), ser_entries_onto(p0, es), ser_header_onto(old(out).sunk(), *self));
            }
            '''),
               ('out.write_all(&self.store)?;', '''proof {
            let p0 = ser_ih_onto(old(out).sunk(), self.index_header);
            let es = self.index_entries@;
            assert(es.take(es.len() as int) =~= es);
            reveal(ser_header_onto);
            lemma_ih_onto_grow(old(out).sunk(), self.index_header);
            lemma_entries_onto_len(p0, es);
            lemma_pre_trans(old(out).sunk(), p0, ser_entries_onto(p0, es));
        }
        ''')]),
    Raw('}\nimpl Header<IndexSignatureTag> {\n'),
    Fn(HDR, 'padding_required', impl='impl Header<IndexSignatureTag>', subs=[ret()],
       spec='    ensures r as int == sigpad(self.index_header.data_section_size as int), 0 <= r < 8,'),
    Fn(HDR, 'write_signature', impl='impl Header<IndexSignatureTag>',
       subs=[IMPLW, ret()],
       spec=WRITE_POST % dict(onto='ser_sig_onto(old(out).sunk(), *self)'),
       before=[('self.write(out)?;', 'proof { lemma_header_onto_grow(old(out).sunk(), *self); reveal(ser_sig_onto); }\n        ')]),
    Raw('}\nimpl Lead {\n'),
    Fn(LEAD, 'write', impl='impl Lead',
       subs=[IMPLW, TO_BE, ret()],
       spec=WRITE_POST % dict(onto='ser_lead_onto(old(out).sunk(), *self)'),
       before=[('out.write_all(&self.magic)?;', 'proof { reveal(ser_lead_onto); }\n        ')]),
    Raw('}\nimpl PackageMetadata {\n'),
    Fn(PKG, 'write', impl='impl PackageMetadata',
       subs=[IMPLW2, ret()],
       spec=WRITE_POST % dict(onto='ser_meta_onto(old(out).sunk(), *self)'),
       before=[('self.lead.write(out)?;', '''proof {
            lemma_meta_onto_grow(old(out).sunk(), *self);
            reveal(ser_meta_onto);
        }
        ''')]),
    Raw('}\nimpl Package {\n'),
    Fn(PKG, 'write', impl='impl Package',
       subs=[IMPLW2, ret()],
       spec=WRITE_POST % dict(onto='ser_pkg_onto(old(out).sunk(), *self)'),
       before=[('self.metadata.write(out)?;', 'proof { lemma_meta_onto_grow(old(out).sunk(), self.metadata); }\n        ')]),
    Raw('''}
// ---- plain-form contracts used by other units (proved here from the accumulator form) ----------
pub open spec fn ser_lead(l: Lead) -> Seq<u8> {
    l.magic@ + seq![l.major] + seq![l.minor] + be16(l.package_type) + be16(l.arch) + l.name@
      + be16(l.os) + be16(l.signature_type) + l.reserved@
}
pub open spec fn ser_meta(m: PackageMetadata) -> Seq<u8> {
    ser_lead(m.lead) + ser_header(m.signature) + zeros(sigpad(m.signature.index_header.data_section_size as int)) + ser_header(m.header)
}
/// `Header::write` into a Vec: Ok and exactly `ser_header` appended (contract quoted by units
/// c03_digests, c02_verify_sig, c10_sign)
pub fn c14_header_write_plain<T: Tag>(h: &Header<T>, out: &mut Vec<u8>) -> (r: Result<(), Error>)
    ensures r is Ok, final(out)@ == old(out)@ + ser_header(*h),
{
    let r = h.write(out);
    proof { lemma_header_onto(old(out)@, *h); }
    r
}
/// `PackageMetadata::write` into a Vec: Ok and exactly `ser_meta` appended (quoted by c01_parse)
pub fn c14_metadata_write_plain(m: &PackageMetadata, out: &mut Vec<u8>) -> (r: Result<(), Error>)
    ensures r is Ok, final(out)@ == old(out)@ + ser_meta(*m),
{
    let r = m.write(out);
    proof {
        let p = old(out)@;
        reveal(ser_meta_onto);
        reveal(ser_lead_onto);
        reveal(ser_sig_onto);
        let p1 = ser_lead_onto(p, m.lead);
        assert(p1 =~= p + ser_lead(m.lead));
        lemma_header_onto(p1, m.signature);
        let p2 = ser_sig_onto(p1, m.signature);
        let pad = sigpad(m.signature.index_header.data_section_size as int);
        assert(zeros(0) =~= Seq::<u8>::empty());
        assert(p2 =~= p1 + ser_header(m.signature) + zeros(pad));
        lemma_header_onto(p2, m.header);
        assert(ser_meta_onto(p, *m) =~= p + ser_meta(*m));
    }
    r
}
// vacuity canary: must FAIL (the VWrite contract is satisfiable and does not prove false)
pub fn canary_c14_sink<W: VWrite>(out: &mut W, b: &[u8])
{
    let r = out.write_all(b);
    assert(false);
}
'''),
] + TAIL

OBLIGATIONS = {
    'IndexData::type_as_u32': ['C01', 'C14', 'C03', 'C02', 'C10', 'C08'],
    'IndexData::num_items': ['C01', 'C14'],
    'IndexHeader::write': ['C01', 'C14', 'C03', 'C02', 'C10', 'C08'],
    'IndexEntry::write_index': ['C01', 'C14', 'C03', 'C02', 'C10', 'C08'],
    'Header::write': ['C01', 'C14', 'C03', 'C02', 'C10', 'C08'],
    'Header::padding_required': ['C01', 'C14'],
    'Header::write_signature': ['C01', 'C14', 'C09'],
    'Lead::write': ['C01', 'C14'],
    'PackageMetadata::write': ['C01', 'C14'],
    'Package::write': ['C01', 'C14'],
    'lemma_entries_onto_grow': ['C01', 'C14', 'C03', 'C02', 'C10', 'C08'],
    'lemma_entries_onto_len': ['C01', 'C14', 'C03', 'C02', 'C10', 'C08'],
    'lemma_entries_onto': ['C01', 'C14', 'C03', 'C02', 'C10', 'C08'],
    'lemma_header_onto': ['C01', 'C14', 'C03', 'C02', 'C10', 'C08'],
    'lemma_header_onto_grow': ['C01', 'C14', 'C03', 'C02', 'C10', 'C08'],
    'lemma_ih_onto_grow': ['C01', 'C14', 'C03', 'C02', 'C10', 'C08'],
    'lemma_entry_onto_grow': ['C01', 'C14', 'C03', 'C02', 'C10', 'C08'],
    'lemma_lead_onto_grow': ['C01', 'C14'],
    'lemma_meta_onto_grow': ['C01', 'C14'],
    'lemma_pre_trans': ['C01', 'C14', 'C03', 'C02', 'C10', 'C08'],
    'c14_header_write_plain': ['C01', 'C14', 'C03', 'C02', 'C10', 'C08'],
    'c14_metadata_write_plain': ['C01', 'C14'],
}
CANARIES = ['canary_c14_sink']
