"""C02 - signature verification never succeeds without a verified signature."""
import re
from vunit import Raw, Prelude, Fn, Decl
from common import *

NAME = 'c02_verify_sig'

PARTS = HEAD + consts('LEAD_SIZE', 'INDEX_HEADER_SIZE', 'INDEX_ENTRY_SIZE', 'HEADER_MAGIC') + io_head() + header_types() + [
    Prelude('hdrspec.rs'),
] + tag_enums() + [
    Prelude('getters.rs'),
    Prelude('crypto.rs'),
    Prelude('alloc.rs'),
    Decl('src/rpm/timestamp.rs', 'struct', 'Timestamp'),
    Prelude('sigs.rs'),
    Raw('pub struct Lead { pub bytes: [u8; 96] }\n'),
    Decl(PKG, 'struct', 'PackageMetadata'),
    Decl(PKG, 'struct', 'Package'),
    header_write_contract(),
    Raw(DIGEST_SPEC),
    VERIFY_DIGESTS_CONTRACT,
    Raw('''
// ---- C02, written from the statement ----------------------------------------------------------
pub open spec fn openpgp_ok<V: signature::Verifying>(v: V, h: Seq<u8>, arr: Seq<String>) -> bool {
    &&& arr.len() >= 1                                  // at least one signature was accepted
    &&& forall|i: int| 0 <= i < arr.len() ==> {          // every signature consulted was accepted,
            &&& b64_spec((#[trigger] arr[i])@) is Some   //   each over exactly the serialised header
            &&& v.accepts(h, b64_spec(arr[i]@)->0)
        }
}
pub open spec fn sig_ok<V: signature::Verifying>(p: Package, v: V) -> bool {
    let h = ser_header(p.metadata.header);
    let c = p.content@;
    let sig = p.metadata.signature;
    &&& digests_ok(p)
    &&& match get_strarr(sig, 278) {
            Some(arr) => openpgp_ok(v, h, arr),
            None => {
                let rsa = get_bin(sig, 268);
                let dsa = get_bin(sig, 267);
                let pgp = get_bin(sig, 1002);
                &&& (rsa is Some || dsa is Some || pgp is Some)
                &&& (rsa is Some ==> v.accepts(h, rsa->0))
                &&& (dsa is Some ==> v.accepts(h, dsa->0))
                &&& (pgp is Some ==> v.accepts(h + c, pgp->0))   // legacy header+payload signature
            },
        }
}
impl Package {
'''),
    Fn(PKG, 'verify_signature', impl='impl Package',
       subs=[ret(),
             ('V: signature::Verifying<Signature = Vec<u8>>', 'V: signature::Verifying', 1, 'R5-associated-type-binding'),
             ] + ALLOC_RULES,
       spec='''    ensures
        r is Ok ==> sig_ok(*self, verifier),''',
       # R8: the loop over the OpenPGP signatures as an index loop (so that a body with `continue` is still judged)
       index_loops={0: ('i_s', '''                invariant
                    header_bytes@ == ser_header(self.metadata.header),
                    0 <= i_s <= openpgp_signatures@.len(),
                    forall|k: int| 0 <= k < i_s ==> {
                        &&& b64_spec((#[trigger] openpgp_signatures@[k])@) is Some
                        &&& verifier.accepts(header_bytes@, b64_spec(openpgp_signatures@[k]@)->0)
                    },
                decreases openpgp_signatures@.len() - i_s,
''')},
       ),
    Raw('''}
// vacuity canary: must FAIL (verification can succeed)
pub fn canary_c02<V: signature::Verifying>(p: &Package, v: V)
{
    let r = p.verify_signature(v);
    assert(false);
}
'''),
] + TAIL

OBLIGATIONS = {
    'Package::verify_signature': ['C02', 'C04', 'C10'],
}
CANARIES = ['canary_c02']
