"""C11 (first sentence, the one source of nondeterminism the property names): the user() / group()
recommends entries are emitted in an order that is a function of the SET of non-root owners only - not
of the iteration order of a hash set, which differs from instance to instance (per-instance hash seed).

The set TYPE is read mechanically from the declaring statements of prepare_data
(`let mut users_to_create = <T>::new();`), the emitting loops are a verbatim block.  The stand-in
`HashSet` yields its elements in an ARBITRARY per-instance order, the stand-in `BTreeSet` in the
ascending order std documents; the block's postcondition demands the ascending order of the contents."""
import re
from vunit import Raw, Prelude, Fn, Decl, Block, Derived
from common import *

NAME = 'c11_order'
BUILDER = 'src/rpm/builder.rs'

LOOP_USERS = '''            invariant
                i_u <= users_iter.len(),
                strs_of(users_iter@) == iter_order_of(users_to_create),
                self.recommends@ == old(self).recommends@ + Seq::new(i_u as nat, |j: int| user_dep(users_iter@[j]@)),
            decreases users_iter.len() - i_u,'''
LOOP_GROUPS = '''            invariant
                i_g <= groups_iter.len(),
                strs_of(groups_iter@) == iter_order_of_g(groups_to_create),
                self.recommends@ == old(self).recommends@ + Seq::new(users_iter.len() as nat, |j: int| user_dep(users_iter@[j]@))
                    + Seq::new(i_g as nat, |j: int| group_dep(groups_iter@[j]@)),
            decreases groups_iter.len() - i_g,'''

PARTS = [Prelude('head.rs')] + [
    Raw('''
/// R5: a dependency is identified here by how it was made
pub struct Dependency { pub name: String }
pub uninterp spec fn user_dep(name: Seq<char>) -> Dependency;
pub uninterp spec fn group_dep(name: Seq<char>) -> Dependency;
impl Dependency {
    #[verifier::external_body]
    pub fn user(username: &String) -> (r: Dependency) ensures r == user_dep(username@) { unimplemented!() }
    #[verifier::external_body]
    pub fn group(groupname: &String) -> (r: Dependency) ensures r == group_dep(groupname@) { unimplemented!() }
}
pub open spec fn strs_of(v: Seq<String>) -> Seq<Seq<char>> { Seq::new(v.len(), |i: int| v[i]@) }
/// the ascending enumeration of a set of strings: a function of the CONTENTS only
pub uninterp spec fn ascending(s: Set<Seq<char>>) -> Seq<Seq<char>>;

/// std::collections::HashSet: "the iteration order is arbitrary" - and with the default RandomState it
/// differs between two instances holding the same elements.  `order()` is therefore a per-INSTANCE
/// value about which nothing is known beyond being an enumeration of the contents.
#[verifier::external_body]
#[verifier::reject_recursive_types(T)]
pub struct HashSet<T> { _p: PhantomData<T> }
impl HashSet<String> {
    pub uninterp spec fn view(&self) -> Set<Seq<char>>;
    pub uninterp spec fn order(&self) -> Seq<Seq<char>>;
    /// R26: `for x in &set` iterates the elements in the set's iteration order
    #[verifier::external_body]
    pub fn iteration_order(&self) -> (r: Vec<String>)
        ensures strs_of(r@) == self.order(), self.order().to_set() == self@, self.order().no_duplicates(),
    { unimplemented!() }
}
/// std::collections::BTreeSet: iteration is in ascending order of the elements
#[verifier::external_body]
#[verifier::reject_recursive_types(T)]
pub struct BTreeSet<T> { _p: PhantomData<T> }
impl BTreeSet<String> {
    pub uninterp spec fn view(&self) -> Set<Seq<char>>;
    pub open spec fn order(&self) -> Seq<Seq<char>> { ascending(self@) }
    #[verifier::external_body]
    pub fn iteration_order(&self) -> (r: Vec<String>)
        ensures strs_of(r@) == self.order(),
    { unimplemented!() }
}
'''),
    # R27: the type of the two sets, read from their declaring statements
    Derived(BUILDER, 'prepare_data', 'impl PackageBuilder',
            r'let mut users_to_create = ([A-Za-z_][A-Za-z0-9_:]*)::new\(\);',
            'pub type UserSet = {0}<String>;\n', 'R27-type of `users_to_create` from its declaring statement'),
    Derived(BUILDER, 'prepare_data', 'impl PackageBuilder',
            r'let mut groups_to_create = ([A-Za-z_][A-Za-z0-9_:]*)::new\(\);',
            'pub type GroupSet = {0}<String>;\n', 'R27-type of `groups_to_create` from its declaring statement'),
    Raw('''
pub open spec fn iter_order_of(s: UserSet) -> Seq<Seq<char>> { s.order() }
pub open spec fn iter_order_of_g(s: GroupSet) -> Seq<Seq<char>> { s.order() }
pub struct PackageBuilder { pub recommends: Vec<Dependency> }
impl PackageBuilder {
'''),
    Block(BUILDER, 'prepare_data', impl='impl PackageBuilder', exclusive=True,
          # delimited by the statements around the two loops, so that the loop variables may be renamed
          start='.push(Dependency::rpmlib("LargeFiles", "4.12.0-1".to_owned()));\n        }\n', end='        let mut provide_names = Vec::new();',
          subs=[('let mut i_u: usize = 0;', 'let users_iter = users_to_create.iteration_order();\n        let mut i_u: usize = 0;', 1,
                 'R26-iterating a set = iterating its elements in its iteration order'),
                ('while i_u < users_to_create.len()', 'while i_u < users_iter.len()', 1, 'R26'),
                ('&users_to_create[i_u]', '&users_iter[i_u]', 1, 'R26'),
                ('let mut i_g: usize = 0;', 'let groups_iter = groups_to_create.iteration_order();\n        let mut i_g: usize = 0;', 1, 'R26'),
                ('while i_g < groups_to_create.len()', 'while i_g < groups_iter.len()', 1, 'R26'),
                ('&groups_to_create[i_g]', '&groups_iter[i_g]', 1, 'R26')],
          index_loops={0: ('i_u', LOOP_USERS), 1: ('i_g', LOOP_GROUPS)},
          header='''    /// the recommends() entries for the non-root owners: appended in the ASCENDING order of the two sets' contents,
    /// whatever instance of the set type holds them.  Free variables: self.recommends, users_to_create, groups_to_create
    pub fn c11_recommends_order(&mut self, users_to_create: UserSet, groups_to_create: GroupSet)
        ensures
            final(self).recommends@ == old(self).recommends@
                + Seq::new(ascending(users_to_create@).len(), |j: int| user_dep(ascending(users_to_create@)[j]))
                + Seq::new(ascending(groups_to_create@).len(), |j: int| group_dep(ascending(groups_to_create@)[j])),''',
          tail='''
        proof {
            assert(Seq::new(users_iter.len() as nat, |j: int| user_dep(users_iter@[j]@))
                =~= Seq::new(ascending(users_to_create@).len(), |j: int| user_dep(ascending(users_to_create@)[j])));
            assert(Seq::new(groups_iter.len() as nat, |j: int| group_dep(groups_iter@[j]@))
                =~= Seq::new(ascending(groups_to_create@).len(), |j: int| group_dep(ascending(groups_to_create@)[j])));
        }'''),
    Raw('''}
// vacuity canary: must FAIL
pub fn canary_c11_order(b: &mut PackageBuilder, u: UserSet, g: GroupSet)
{
    b.c11_recommends_order(u, g);
    assert(b.recommends@.len() == 0);
}
/// the stand-in HashSet really is order-agnostic: nothing ties order() to ascending() - must FAIL
pub fn canary_hashset_order(s: &HashSet<String>)
{
    let v = s.iteration_order();
    assert(strs_of(v@) == ascending(s@));
}
'''),
] + TAIL

OBLIGATIONS = {'PackageBuilder::c11_recommends_order': ['C11']}
CANARIES = ['canary_c11_order', 'canary_hashset_order']
