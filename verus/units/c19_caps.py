"""C19 (clause structure): validate_caps_text accepts a text exactly when it is non-empty after trimming and
EVERY whitespace-separated clause (std's split_whitespace) has an operator, has a name list before its
first operator unless the CLAUSE starts with '=', has an acceptable name list (validate_capset's verdict,
not decided here) and an operator/flag suffix over {=,+,-,e,i,p} without adjacent operators; no input
panics (the debug_assert! in validate_suffix included).

Verbatim bodies of validate_caps_text and validate_suffix; str plumbing (trim, split_whitespace, find,
slicing at the found index, chars) is rewritten to helpers that carry std's documented meaning."""
import re
from vunit import Raw, Prelude, Fn, Decl
from common import *

NAME = 'c19_caps'
CAPS = 'src/rpm/filecaps.rs'
ERR = (re.compile(r'Error::InvalidFileCaps\((?:[^()]|\((?:[^()]|\([^()]*\))*\))*\)'), 'Error::InvalidFileCaps(err_text())', None,
       'R12-error message text (format!/to_owned) is irrelevant: any String')

LOOP_SUFFIX = '''            invariant
                i_c <= chars.len(),
                chars@ == s@,
                suffix_ok(s@.subrange(0, i_c as int)),
                i_c == 0 ==> last_ch is None,
                i_c > 0 ==> last_ch == Some(s@[i_c - 1]),
                s@.len() > 0 ==> is_op(s@[0]),
            decreases chars.len() - i_c,'''
LOOP_CAPSET = '''            invariant
                i_n <= names.len(),
                strs_view(names@) == comma_pieces(s@),
                forall|j: int| 0 <= j < i_n ==> known_cap(#[trigger] comma_pieces(s@)[j]),
            decreases names.len() - i_n,'''
LOOP_TEXT = '''            invariant
                i_p <= parts.len(),
                strs_view(parts@) == tokens(s@),
                forall|j: int| 0 <= j < i_p ==> clause_ok(#[trigger] tokens(s@)[j]),
            decreases parts.len() - i_p,'''

PARTS = [Prelude('head.rs')] + [
    Raw('''
pub enum Error { InvalidFileCaps(String), Other }
#[verifier::external_body]
pub fn err_text() -> String { unimplemented!() }

// ---- C19, written from the statement -------------------------------------------------------------------
pub open spec fn is_op(c: char) -> bool { c == '=' || c == '+' || c == '-' }
pub open spec fn is_flag(c: char) -> bool { c == 'e' || c == 'i' || c == 'p' }
/// operator/flag groups: only operators and flags, operators never adjacent
pub open spec fn suffix_ok(s: Seq<char>) -> bool {
    &&& forall|i: int| 0 <= i < s.len() ==> is_op(#[trigger] s[i]) || is_flag(s[i])
    &&& forall|i: int| 0 < i < s.len() ==> !(is_op(#[trigger] s[i]) && is_op(s[i - 1]))
}
/// the comma-separated pieces of a text, in order (std: str::split(','): one more piece than commas, pieces may be empty)
pub uninterp spec fn comma_pieces(s: Seq<char>) -> Seq<Seq<char>>;
/// `name.to_uppercase()` is one of the capability names of the CAPS table (the table's CONTENT is not examined)
pub uninterp spec fn known_cap(name: Seq<char>) -> bool;
/// `s.eq_ignore_ascii_case("all")`
pub uninterp spec fn is_all(s: Seq<char>) -> bool;
/// a name list: empty, "all" in any case, or comma-separated known capability names - EVERY piece, also an empty one
pub open spec fn capset_ok(names: Seq<char>) -> bool {
    names.len() == 0 || is_all(names) || forall|j: int| 0 <= j < comma_pieces(names).len() ==> known_cap(#[trigger] comma_pieces(names)[j])
}
/// index of the first operator of a clause, or its length
pub open spec fn first_op(c: Seq<char>) -> int
    decreases c.len(),
{
    if c.len() == 0 { 0 } else if is_op(c[0]) { 0 } else { 1 + first_op(c.subrange(1, c.len() as int)) }
}
pub open spec fn has_op(c: Seq<char>) -> bool { exists|i: int| 0 <= i < c.len() && is_op(c[i]) }
/// one clause: a name list, then operator/flag groups; only a clause that STARTS WITH '=' may omit the names
pub open spec fn clause_ok(c: Seq<char>) -> bool {
    &&& has_op(c)
    &&& (is_op(c[0]) ==> c[0] == '=')
    &&& capset_ok(c.subrange(0, first_op(c)))
    &&& suffix_ok(c.subrange(first_op(c), c.len() as int))
}

// ---- A-STR: the str functions used, with their documented meaning ------------------------------------
pub uninterp spec fn trimmed(s: Seq<char>) -> Seq<char>;
/// the whitespace-separated, non-empty pieces of a text, in order (std: split_whitespace)
pub uninterp spec fn tokens(s: Seq<char>) -> Seq<Seq<char>>;
pub open spec fn strs_view(v: Seq<&str>) -> Seq<Seq<char>> { Seq::new(v.len(), |i: int| v[i]@) }
#[verifier::external_body]
pub fn str_trim<'a>(s: &'a str) -> (r: &'a str) ensures r@ == trimmed(s@) { s.trim() }
#[verifier::external_body]
pub fn str_is_empty(s: &str) -> (r: bool) ensures r == (s@.len() == 0) { s.is_empty() }
#[verifier::external_body]
pub fn starts_with_char(s: &str, c: char) -> (r: bool) ensures r == (s@.len() > 0 && s@[0] == c) { s.starts_with(c) }
/// R8/R32: `for part in s.split_whitespace()`: the pieces, each non-empty
#[verifier::external_body]
pub fn split_whitespace_vec<'a>(s: &'a str) -> (r: Vec<&'a str>)
    ensures strs_view(r@) == tokens(s@), forall|j: int| 0 <= j < r@.len() ==> (#[trigger] r@[j])@.len() > 0,
{ s.split_whitespace().collect() }
/// R8/R32: `for ch in s.chars()`
#[verifier::external_body]
pub fn str_chars(s: &str) -> (r: Vec<char>) ensures r@ == s@ { s.chars().collect() }
/// byte offset -> character index (UTF-8): an abstract, monotone correspondence; offset 0 is character 0
pub uninterp spec fn cidx(s: Seq<char>, off: usize) -> int;
pub uninterp spec fn on_boundary(s: Seq<char>, off: usize) -> bool;
/// R32: `part.find(['+', '-', '='])`: byte offset of the first operator character
#[verifier::external_body]
pub fn find_op(part: &str) -> (r: Option<usize>)
    ensures match r {
        None => !has_op(part@),
        Some(i) => on_boundary(part@, i) && cidx(part@, i) == first_op(part@) && 0 <= first_op(part@) < part@.len()
            && is_op(part@[first_op(part@)]) && (i == 0 <==> first_op(part@) == 0),
    },
{ part.find(['+', '-', '=']) }
/// R32: `&part[..i]` / `&part[i..]` at a character boundary (slicing elsewhere panics: precondition)
#[verifier::external_body]
pub fn str_to<'a>(s: &'a str, i: usize) -> (r: &'a str)
    requires on_boundary(s@, i), 0 <= cidx(s@, i) <= s@.len(),
    ensures r@ == s@.subrange(0, cidx(s@, i)),
{ &s[..i] }
#[verifier::external_body]
pub fn str_from<'a>(s: &'a str, i: usize) -> (r: &'a str)
    requires on_boundary(s@, i), 0 <= cidx(s@, i) <= s@.len(),
    ensures r@ == s@.subrange(cidx(s@, i), s@.len() as int),
{ &s[i..] }
#[verifier::external_body]
pub fn eq_ignore_case_all(s: &str) -> (r: bool) ensures r == is_all(s@) { s.eq_ignore_ascii_case("all") }
/// R8/R32: `for part in s.split(',')`
#[verifier::external_body]
pub fn split_comma_vec<'a>(s: &'a str) -> (r: Vec<&'a str>) ensures strs_view(r@) == comma_pieces(s@) { s.split(',').collect() }
/// std: `split_terminator` is `split` without a trailing empty piece
#[verifier::external_body]
pub fn split_terminator_comma_vec<'a>(s: &'a str) -> (r: Vec<&'a str>)
    ensures strs_view(r@) == (if comma_pieces(s@).len() > 0 && comma_pieces(s@).last().len() == 0 { comma_pieces(s@).drop_last() } else { comma_pieces(s@) }),
{ s.split_terminator(',').collect() }
/// R32: `CAPS.contains(&part.to_uppercase().as_str())`
#[verifier::external_body]
pub fn caps_contains_upper(part: &str) -> (r: bool) ensures r == known_cap(part@) { unimplemented!() }

pub proof fn lemma_first_op(c: Seq<char>)
    ensures
        0 <= first_op(c) <= c.len(),
        forall|j: int| 0 <= j < first_op(c) ==> !is_op(#[trigger] c[j]),
        first_op(c) < c.len() ==> is_op(c[first_op(c)]),
        has_op(c) <==> first_op(c) < c.len(),
    decreases c.len(),
{
    if c.len() > 0 && !is_op(c[0]) {
        let t = c.subrange(1, c.len() as int);
        lemma_first_op(t);
        assert forall|j: int| 0 <= j < first_op(c) implies !is_op(#[trigger] c[j]) by { if j > 0 { assert(c[j] == t[j - 1]); } }
        if first_op(c) < c.len() { assert(c[first_op(c)] == t[first_op(t)]); }
        if has_op(c) { let i = choose|i: int| 0 <= i < c.len() && is_op(c[i]); assert(t[i - 1] == c[i]); }
        if has_op(t) { let i = choose|i: int| 0 <= i < t.len() && is_op(t[i]); assert(c[i + 1] == t[i]); }
    }
}
'''),
    Fn(CAPS, 'validate_capset',
       subs=[ret(), ERR,
             ('s.is_empty()', 'str_is_empty(s)', 1, 'R32-str::is_empty'),
             ('s.eq_ignore_ascii_case("all")', 'eq_ignore_case_all(s)', 1, 'R32-eq_ignore_ascii_case'),
             ('!CAPS.contains(&part.to_uppercase().as_str())', '!caps_contains_upper(part)', 1, 'R32-upper-cased lookup in the CAPS table'),
             ('fn validate_capset', '#[verifier::loop_isolation(false)]\nfn validate_capset', 1, 'verifier attribute: facts about variables the loop does not modify stay available'),
             ],
       spec='    ensures r is Ok <==> capset_ok(s@),',
       index_loops={0: ('i_n', LOOP_CAPSET, '', ({"s.split(',')": 'let names = split_comma_vec(s);',
                                                  # a different std iterator over the same text (two independent seeds used it): judged, not rejected
                                                  "s.split_terminator(',')": 'let names = split_terminator_comma_vec(s);'}, None, 'names'))},
       before=[('        if !CAPS.contains(', 'proof { assert(strs_view(names@)[i_n as int] == part@); }\n')],
       ),
    Fn(CAPS, 'validate_suffix',
       subs=[ret(), ERR,
             (re.compile(r'debug_assert!\((\w+)\.is_some\(\)\)'), r'assert(\1 is Some)', 1, 'R33-debug_assert! as an obligation (it panics in debug builds)'),
             ],
       spec='''    requires s@.len() > 0 ==> is_op(s@[0]),      // callers pass the text from the first operator on
    ensures r is Ok <==> suffix_ok(s@),''',
       index_loops={0: ('i_c', LOOP_SUFFIX, '''proof { assert(s@.subrange(0, i_c as int + 1) =~= s@.subrange(0, i_c as int).push(s@[i_c as int])); }
        ''', ('s.chars()', 'let chars = str_chars(s);', 'chars'))},
       before=[('    Ok(())\n}', '    proof { assert(s@.subrange(0, chars.len() as int) =~= s@); }\n')],
       ),
    Fn(CAPS, 'validate_caps_text',
       subs=[ret(), ERR,
             ('s.trim()', 'str_trim(s)', 1, 'R32-str::trim'),
             ('s.is_empty()', 'str_is_empty(s)', 1, 'R32-str::is_empty'),
             (re.compile(r"\b(\w+)\.find\(\['\+', '-', '='\]\)"), r'find_op(\1)', 1, 'R32-str::find([ops])'),
             (re.compile(r"!(\w+)\.starts_with\('='\)"), r"!starts_with_char(\1, '=')", 1, 'R12-str::starts_with(char)'),
             (re.compile(r'&(\w+)\[\.\.(\w+)\]'), r'str_to(\1, \2)', 1, 'R32-slicing at the found offset'),
             (re.compile(r'&(\w+)\[(\w+)\.\.\]'), r'str_from(\1, \2)', 1, 'R32-slicing at the found offset'),
             ('pub fn validate_caps_text', '#[verifier::loop_isolation(false)]\npub fn validate_caps_text', 1, 'verifier attribute: facts about variables the loop does not modify stay available'),
             ],

       spec='''    ensures
        r is Ok <==> trimmed(s@).len() > 0 && forall|j: int| 0 <= j < tokens(trimmed(s@)).len() ==> clause_ok(#[trigger] tokens(trimmed(s@))[j]),''',
       index_loops={0: ('i_p', LOOP_TEXT, '', ('s.split_whitespace()', 'let parts = split_whitespace_vec(s);', 'parts',
                                           '{v}[{i}]; proof {{ lemma_first_op({v}[{i} as int]@); assert(strs_view({v}@)[{i} as int] == {v}[{i} as int]@); }}'))},
       ),
    Decl(CAPS, 'struct', 'FileCaps', subs=[('pub struct FileCaps(String);', 'pub struct FileCaps(pub String);', 1, 'R13-visibility-field')]),
    Raw('''
/// the text is accepted (C19)
pub open spec fn caps_ok(s: Seq<char>) -> bool {
    trimmed(s).len() > 0 && forall|j: int| 0 <= j < tokens(trimmed(s)).len() ==> clause_ok(#[trigger] tokens(trimmed(s))[j])
}
#[verifier::external_body]
pub fn str_to_owned(s: &str) -> (r: String) ensures r@ == s@ { s.to_owned() }
impl FileCaps {
'''),
    Fn(CAPS, 'new', impl='impl FileCaps',
       subs=[ret(), ('validate_caps_text(&input)?', 'validate_caps_text(input.as_str())?', 1, 'R5-&String to &str deref')],
       spec='    ensures r is Ok <==> caps_ok(input@), r is Ok ==> r->Ok_0.0@ == input@,   // accepted text is kept verbatim'),
    Fn(CAPS, 'from_str', impl='impl FromStr for FileCaps',
       subs=[('fn from_str(s: &str) -> Result<Self, Self::Err>', 'pub fn from_str(s: &str) -> (r: Result<Self, Error>)', 1, 'R10-trait-impl-as-inherent-fn'),
             ('s.to_owned()', 'str_to_owned(s)', 1, 'R12-to_owned')],
       spec='    ensures r is Ok <==> caps_ok(s@), r is Ok ==> r->Ok_0.0@ == s@,   // accepted text is kept verbatim'),
    Raw('''
}
// vacuity canary: must FAIL (acceptance is not trivially true or false)
pub fn canary_c19(s: &str)
{
    let r = validate_caps_text(s);
    assert(r is Err);
}
pub fn canary_c19b(s: &str)
{
    let r = validate_caps_text(s);
    assert(r is Ok);
}
'''),
] + TAIL

OBLIGATIONS = {'validate_capset': ['C19', 'C17'], 'validate_suffix': ['C19', 'C17'], 'validate_caps_text': ['C19', 'C17'], 'lemma_first_op': ['C19'], 'FileCaps::new': ['C19', 'C17'], 'FileCaps::from_str': ['C19', 'C17']}   # C17: rejected with an error, never a panic
CANARIES = ['canary_c19', 'canary_c19b']
