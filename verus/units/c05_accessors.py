"""C05: scalar metadata accessors of PackageMetadata return what the typed getter gives for the
rpm tag the accessor is named after (tag numbers from rpm's tag table, checked by k_tag_values)."""
import re
from vunit import Raw, Prelude, Fn, Decl
from common import *

NAME = 'c05_accessors'
CC = 'closure-contract (spliced annotation; closure body verbatim)'

def s_acc(fn, tag):
    return Fn(PKG, fn, impl='impl PackageMetadata', subs=[ret()],
              spec='''    ensures match get_str(self.header, %d) { Some(d) => r is Ok && r->Ok_0@ == d, None => r is Err },''' % tag)

def i_acc(fn, tag):
    return Fn(PKG, fn, impl='impl PackageMetadata', subs=[ret()],
              spec='''    ensures match get_i18n(self.header, %d) { Some(d) => r is Ok && r->Ok_0@ == d, None => r is Err },''' % tag)

PARTS = HEAD + consts('INDEX_HEADER_SIZE', 'INDEX_ENTRY_SIZE', 'HEADER_MAGIC') + io_head() + header_types() + [
    Prelude('hdrspec.rs'),
] + tag_enums() + [
    Prelude('getters.rs'),
    Raw('pub struct Lead { pub bytes: [u8; 96] }\n'),
    Decl(PKG, 'struct', 'PackageMetadata'),
    Raw('''
pub assume_specification<T, E, F, O: FnOnce(E) -> Result<T, F>>[ Result::<T, E>::or_else ](r: Result<T, E>, op: O) -> (res: Result<T, F>)
    requires r is Err ==> op.requires((r->Err_0,)),
    ensures match r { Ok(t) => res == Ok::<T, F>(t), Err(e) => op.ensures((e,), res) };
impl PackageMetadata {
'''),
    s_acc('get_name', 1000), s_acc('get_version', 1001), s_acc('get_release', 1002), s_acc('get_arch', 1022),
    s_acc('get_vendor', 1011), s_acc('get_url', 1020), s_acc('get_vcs', 5034), s_acc('get_license', 1014),
    s_acc('get_packager', 1015), s_acc('get_build_host', 1007), s_acc('get_cookie', 1094), s_acc('get_source_rpm', 1044),
    i_acc('get_summary', 1004), i_acc('get_description', 1005), i_acc('get_group', 1016),
    Fn(PKG, 'get_epoch', impl='impl PackageMetadata', subs=[ret()],
       spec='    ensures match get_u32(self.header, 1003) { Some(d) => r is Ok && r->Ok_0 == d, None => r is Err },'),
    Fn(PKG, 'get_build_time', impl='impl PackageMetadata',
       subs=[ret(), ('.map(|x| x as u64)', '.map(|x: u32| -> (o: u64) ensures o == x { x as u64 })', 1, CC)],
       spec='    ensures match get_u32(self.header, 1006) { Some(d) => r is Ok && r->Ok_0 == d, None => r is Err },'),
    Fn(PKG, 'get_installed_size', impl='impl PackageMetadata',
       subs=[ret(),
             ('.map(|v| v as u64)', '.map(|v: u32| -> (o: u64) ensures o == v { v as u64 })', 1, CC),
             ('.or_else(|_e| {', '''.or_else(|_e: Error| -> (o: Result<u64, Error>)
                ensures match get_u32(self.header, 1009) { Some(d) => o is Ok && o->Ok_0 == d, None => o is Err }
            {''', 1, CC)],
       spec='''    ensures
        // 64-bit size preferred, 32-bit size as fallback, error when neither is there
        match get_u64(self.header, 5009) {
            Some(d) => r is Ok && r->Ok_0 == d,
            None => match get_u32(self.header, 1009) { Some(d) => r is Ok && r->Ok_0 == d, None => r is Err },
        },'''),
    Raw('''
    /// NOT under contract (multizip / from_iter / closures): the zipped dependency list as an
    /// uninterpreted function of the header and the three tags read
    #[verifier::external_body]
    fn get_dependencies(&self, names_tag: IndexTag, flags_tag: IndexTag, versions_tag: IndexTag) -> (r: Result<Vec<Dependency>, Error>)
        ensures r is Ok ==> r->Ok_0@ == deps_spec(self.header, names_tag as u32, flags_tag as u32, versions_tag as u32),
            r is Ok <==> deps_ok(self.header, names_tag as u32, flags_tag as u32, versions_tag as u32),
    { unimplemented!() }
'''),
] + [Fn(PKG, f, impl='impl PackageMetadata', subs=[ret()],
        spec='''    ensures r is Ok ==> r->Ok_0@ == deps_spec(self.header, %d, %d, %d),
        r is Ok <==> deps_ok(self.header, %d, %d, %d),''' % (n, fl, v, n, fl, v))
     for f, n, fl, v in (('get_provides', 1047, 1112, 1113), ('get_requires', 1049, 1048, 1050),
                         ('get_conflicts', 1054, 1053, 1055), ('get_obsoletes', 1090, 1114, 1115),
                         ('get_recommends', 5046, 5048, 5047), ('get_suggests', 5049, 5051, 5050),
                         ('get_enhances', 5055, 5057, 5056), ('get_supplements', 5052, 5054, 5053))] + [
    Raw('''}
/// R5: Dependency is opaque here
pub struct Dependency { pub id: u64 }
pub uninterp spec fn deps_spec(h: Header<IndexTag>, n: u32, f: u32, v: u32) -> Seq<Dependency>;
pub uninterp spec fn deps_ok(h: Header<IndexTag>, n: u32, f: u32, v: u32) -> bool;
// vacuity canary: must FAIL
pub fn canary_c05_acc(m: &PackageMetadata)
{
    let r = m.get_name();
    assert(r is Err);
}
'''),
] + TAIL

OBLIGATIONS = {('PackageMetadata::' + f): (['C05', 'C06'] if f in ('get_name get_version get_release get_arch get_vendor get_url get_vcs get_license get_packager get_cookie get_summary get_description get_group get_epoch').split() else ['C05']) for f in (
    'get_provides get_requires get_conflicts get_obsoletes get_recommends get_suggests get_enhances get_supplements '
    'get_name get_version get_release get_arch get_vendor get_url get_vcs get_license get_packager get_build_host '
    'get_cookie get_source_rpm get_summary get_description get_group get_epoch get_build_time get_installed_size').split()}
CANARIES = ['canary_c05_acc']
