"""C05: scalar metadata accessors of PackageMetadata return what the typed getter gives for the
rpm tag the accessor is named after (tag numbers from rpm's tag table, checked by k_tag_values)."""
import re
from vunit import Raw, Prelude, Fn, Decl
from common import *

NAME = 'c05_accessors'
CC = 'closure-contract (spliced annotation; closure body verbatim)'

def s_acc(fn, tag):
    return Fn(PKG, fn, impl='impl PackageMetadata', subs=[ret()],
              spec='''    ensures match get_str(self.header, %d) { Some(d) => r is Ok && r->Ok_0@ == d, None => r is Err },''' % tag)

def i_acc(fn, tag):
    return Fn(PKG, fn, impl='impl PackageMetadata', subs=[ret()],
              spec='''    ensures match get_i18n(self.header, %d) { Some(d) => r is Ok && r->Ok_0@ == d, None => r is Err },''' % tag)

PARTS = HEAD + consts('INDEX_HEADER_SIZE', 'INDEX_ENTRY_SIZE', 'HEADER_MAGIC') + io_head() + header_types() + [
    Prelude('hdrspec.rs'),
] + tag_enums() + [
    Prelude('getters.rs'),
    Raw('pub struct Lead { pub bytes: [u8; 96] }\n'),
    Decl(PKG, 'struct', 'PackageMetadata'),
    Decl(TYPES, 'struct', 'Scriptlet'),
    Decl(HDR, 'struct', 'ChangelogEntry'),
    Decl(TYPES, 'struct', 'Dependency'),
] + consts('PREIN_TAGS', 'POSTIN_TAGS', 'PREUN_TAGS', 'POSTUN_TAGS', 'PRETRANS_TAGS', 'POSTTRANS_TAGS', 'PREUNTRANS_TAGS', 'POSTUNTRANS_TAGS', 'VERIFYSCRIPT_TAGS') + [
    Raw('''
pub assume_specification<T, E, F, O: FnOnce(E) -> Result<T, F>>[ Result::<T, E>::or_else ](r: Result<T, E>, op: O) -> (res: Result<T, F>)
    requires r is Err ==> op.requires((r->Err_0,)),
    ensures match r { Ok(t) => res == Ok::<T, F>(t), Err(e) => op.ensures((e,), res) };
impl PackageMetadata {
'''),
    s_acc('get_name', 1000), s_acc('get_version', 1001), s_acc('get_release', 1002), s_acc('get_arch', 1022),
    s_acc('get_vendor', 1011), s_acc('get_url', 1020), s_acc('get_vcs', 5034), s_acc('get_license', 1014),
    s_acc('get_packager', 1015), s_acc('get_build_host', 1007), s_acc('get_cookie', 1094), s_acc('get_source_rpm', 1044),
    i_acc('get_summary', 1004), i_acc('get_description', 1005), i_acc('get_group', 1016),
    Fn(PKG, 'get_epoch', impl='impl PackageMetadata', subs=[ret()],
       spec='    ensures match get_u32(self.header, 1003) { Some(d) => r is Ok && r->Ok_0 == d, None => r is Err },'),
    Fn(PKG, 'get_build_time', impl='impl PackageMetadata',
       subs=[ret(), ('.map(|x| x as u64)', '.map(|x: u32| -> (o: u64) ensures o == x { x as u64 })', 1, CC)],
       spec='    ensures match get_u32(self.header, 1006) { Some(d) => r is Ok && r->Ok_0 == d, None => r is Err },'),
    Fn(PKG, 'get_installed_size', impl='impl PackageMetadata',
       subs=[ret(),
             ('.map(|v| v as u64)', '.map(|v: u32| -> (o: u64) ensures o == v { v as u64 })', 1, CC),
             ('.or_else(|_e| {', '''.or_else(|_e: Error| -> (o: Result<u64, Error>)
                ensures match get_u32(self.header, 1009) { Some(d) => o is Ok && o->Ok_0 == d, None => o is Err }
            {''', 1, CC)],
       spec='''    ensures
        // 64-bit size preferred, 32-bit size as fallback, error when neither is there
        match get_u64(self.header, 5009) {
            Some(d) => r is Ok && r->Ok_0 == d,
            None => match get_u32(self.header, 1009) { Some(d) => r is Ok && r->Ok_0 == d, None => r is Err },
        },'''),
    Fn(PKG, 'get_dependencies', impl='impl PackageMetadata',
       subs=[ret(),
             (re.compile(r'Err\(Error::TagNotFound\(_\)\)'), 'Err(Error::TagNotFound)', None, 'R5-error payload (the tag name) dropped'),
             (re.compile(r'Vec::from_iter\(itertools::multizip\(\((\w+), (\w+), (\w+)\)\)\.map\(\s*\|\((\w+), (\w+), (\w+)\)\| Dependency \{(.*?)\},\s*\)\)', re.S),
              r'zip3_map(\1, \2, \3, |\4: &String, \5: u32, \6: &String| -> (o: Dependency) ensures o.name@ == \4@ && o.flags.b == \5 && o.version@ == \6@ { Dependency {\7} })', 1,
              'R41-Vec::from_iter(multizip((a, b, c)).map(f)); closure contract spliced'),
             (re.compile(r'\b(name|version)\.to_owned\(\)'), r'string_to_owned(\1)', None, 'R12-to_owned'),
             ],
       spec='    ensures deps_read(self.header, names_tag.spec_to_u32(), flags_tag.spec_to_u32(), versions_tag.spec_to_u32(), r),'),
] + [Fn(PKG, f, impl='impl PackageMetadata', subs=[ret()],
        spec='    ensures deps_read(self.header, %d, %d, %d, r),' % (n, fl, v))
     for f, n, fl, v in (('get_provides', 1047, 1112, 1113), ('get_requires', 1049, 1048, 1050),
                         ('get_conflicts', 1054, 1053, 1055), ('get_obsoletes', 1090, 1114, 1115),
                         ('get_recommends', 5046, 5048, 5047), ('get_suggests', 5049, 5051, 5050),
                         ('get_enhances', 5055, 5057, 5056), ('get_supplements', 5052, 5054, 5053))] + [
    # ---- changelog: names, times and texts zipped in order -------------------------------------------------
    Fn(PKG, 'get_changelog_entries', impl='impl PackageMetadata',
       subs=[ret(),
             (re.compile(r'Err\(Error::TagNotFound\(_\)\)'), 'Err(Error::TagNotFound)', None, 'R5-error payload (the tag name) dropped'),
             (re.compile(r'Vec::from_iter\(itertools::multizip\(\((\w+), (\w+), (\w+)\)\)\.map\(\s*\|\((\w+), (\w+), (\w+)\)\| ChangelogEntry \{(.*?)\},\s*\)\)', re.S),
              r'zip3_map(\1, \2, \3, |\4: &String, \5: u32, \6: &String| -> (o: ChangelogEntry) ensures o.name@ == \4@ && o.timestamp == \5 as u64 && o.description@ == \6@ { ChangelogEntry {\7} })', 1,
              'R41-Vec::from_iter(multizip((a, b, c)).map(f)): element i is f(a[i], b[i], c[i]), up to the shortest list; closure contract spliced'),
             (re.compile(r'\b(name|description)\.to_owned\(\)'), r'string_to_owned(\1)', None, 'R12-to_owned'),
             ],
       spec='''    ensures
        match (get_strarr(self.header, 1081), get_u32arr(self.header, 1080), get_strarr(self.header, 1082)) {
            // names, times, texts all stored: entry i is (name i, time i, text i), in order, up to the shortest list
            (Some(n), Some(t), Some(d)) => {
                &&& r is Ok
                &&& r->Ok_0@.len() == min3(n.len() as int, t.len() as int, d.len() as int)
                &&& forall|i: int| 0 <= i < r->Ok_0@.len() ==> (#[trigger] r->Ok_0@[i]).name@ == n[i]@ && r->Ok_0@[i].timestamp == t[i] as u64 && r->Ok_0@[i].description@ == d[i]@
            },
            _ => (r is Ok ==> r->Ok_0@.len() == 0),     // some tag missing or ill-typed: an error, or the empty list when all three are absent
        },
        (entry_of(self.header, 1081) is None && entry_of(self.header, 1080) is None && entry_of(self.header, 1082) is None) ==> r is Ok,'''),
    # ---- scriptlets: the read-back of what Scriptlet::apply emits (unit c06_blocks) ----------------------
    Fn(PKG, 'get_scriptlet', impl='impl PackageMetadata',
       subs=[ret(),
             ('.map(|s| s.to_string())', '.map(|s: &str| -> (o: String) ensures o@ == s@ { str_to_string(s) })', 1, CC),
             ('.map(ScriptletFlags::from_bits_retain)', '.map(|b: u32| -> (o: ScriptletFlags) ensures o.b == b { ScriptletFlags::from_bits_retain(b) })', 1, CC),
             ('.map(|p| p.to_owned())', '.map(|p: &[String]| -> (o: Vec<String>) ensures o@ == p@ { slice_to_owned(p) })', 1, CC)],
       spec='''    ensures scriptlet_read(self.header, tags.0.spec_to_u32(), tags.1.spec_to_u32(), tags.2.spec_to_u32(), r),'''),
] + [Fn(PKG, f, impl='impl PackageMetadata', subs=[ret()],
        spec='    ensures scriptlet_read(self.header, %d, %d, %d, r),   // %s' % (t1, t2, t3, n))
     for f, t1, t2, t3, n in (('get_pre_install_script', 1023, 5020, 1085, '%pre'), ('get_post_install_script', 1024, 5021, 1086, '%post'),
                              ('get_pre_uninstall_script', 1025, 5022, 1087, '%preun'), ('get_post_uninstall_script', 1026, 5023, 1088, '%postun'),
                              ('get_pre_trans_script', 1151, 5024, 1153, '%pretrans'), ('get_post_trans_script', 1152, 5025, 1154, '%posttrans'),
                              ('get_pre_untrans_script', 5103, 5107, 5105, '%preuntrans'), ('get_post_untrans_script', 5104, 5108, 5106, '%postuntrans'),
                              ('get_verify_script', 1079, 5026, 1091, '%verifyscript'))] + [
    Raw('''}
pub open spec fn min3(a: int, b: int, c: int) -> int { if a <= b && a <= c { a } else if b <= c { b } else { c } }
/// R41: itertools::multizip over (&[A], Vec<B>, &[C]) mapped and collected
#[verifier::external_body]
pub fn zip3_map<R, F: Fn(&String, u32, &String) -> R>(a: &[String], b: Vec<u32>, c: &[String], f: F) -> (r: Vec<R>)
    requires forall|x: &String, y: u32, z: &String| #[trigger] f.requires((x, y, z)),
    ensures r@.len() == min3(a@.len() as int, b@.len() as int, c@.len() as int),
        forall|i: int| 0 <= i < r@.len() ==> f.ensures((&a@[i], b@[i], &c@[i]), #[trigger] r@[i]),
{ unimplemented!() }
#[verifier::external_body]
pub fn string_to_owned(s: &String) -> (r: String) ensures r@ == s@ { s.to_owned() }
/// R5: bitflags type; only the bits matter
pub struct ScriptletFlags { pub b: u32 }
impl ScriptletFlags {
    #[verifier::external_body]
    pub fn from_bits_retain(bits: u32) -> (r: ScriptletFlags) ensures r.b == bits { unimplemented!() }
}
pub type ScriptletIndexTags = (IndexTag, IndexTag, IndexTag);
#[verifier::external_body]
pub fn str_to_string(s: &str) -> (r: String) ensures r@ == s@ { s.to_string() }
#[verifier::external_body]
pub fn slice_to_owned(p: &[String]) -> (r: Vec<String>) ensures r@ == p@ { p.to_owned() }
/// what reading a scriptlet of one kind must give: Ok exactly when the body is there as a string; the flags and
/// the interpreter are those stored under the tags of THAT kind, and absent when those are not there (or ill-typed)
pub open spec fn scriptlet_read(h: Header<IndexTag>, t_script: u32, t_flags: u32, t_prog: u32, r: Result<Scriptlet, Error>) -> bool {
    match get_str(h, t_script) {
        None => r is Err,
        Some(body) => {
            &&& r is Ok
            &&& r->Ok_0.script@ == body
            &&& match get_u32(h, t_flags) { Some(f) => r->Ok_0.flags is Some && r->Ok_0.flags->0.b == f, None => r->Ok_0.flags is None }
            &&& match get_strarr(h, t_prog) { Some(p) => r->Ok_0.program is Some && r->Ok_0.program->0@ == p, None => r->Ok_0.program is None }
        },
    }
}
/// R5: bitflags type; only the bits matter
pub struct DependencyFlags { pub b: u32 }
impl DependencyFlags {
    #[verifier::external_body]
    pub fn from_bits_retain(bits: u32) -> (r: DependencyFlags) ensures r.b == bits { unimplemented!() }
}
/// what reading the dependencies of one kind must give: name i, flags i, version i of the three arrays stored under
/// the tags of THAT kind, in order
pub open spec fn deps_read(h: Header<IndexTag>, t_names: u32, t_flags: u32, t_versions: u32, r: Result<Vec<Dependency>, Error>) -> bool {
    &&& match (get_strarr(h, t_names), get_u32arr(h, t_flags), get_strarr(h, t_versions)) {
            (Some(n), Some(f), Some(v)) => {
                &&& r is Ok
                &&& r->Ok_0@.len() == min3(n.len() as int, f.len() as int, v.len() as int)
                &&& forall|i: int| 0 <= i < r->Ok_0@.len() ==> (#[trigger] r->Ok_0@[i]).name@ == n[i]@ && r->Ok_0@[i].flags.b == f[i] && r->Ok_0@[i].version@ == v[i]@
            },
            _ => (r is Ok ==> r->Ok_0@.len() == 0),
        }
    &&& ((entry_of(h, t_names) is None && entry_of(h, t_flags) is None && entry_of(h, t_versions) is None) ==> r is Ok)
}
// vacuity canary: must FAIL
pub fn canary_c05_acc(m: &PackageMetadata)
{
    let r = m.get_name();
    assert(r is Err);
}
'''),
] + TAIL

OBLIGATIONS = {('PackageMetadata::' + f): (['C05', 'C06'] if f in ('get_name get_version get_release get_arch get_vendor get_url get_vcs get_license get_packager get_cookie get_summary get_description get_group get_epoch').split() else ['C05']) for f in (
    'get_provides get_requires get_conflicts get_obsoletes get_recommends get_suggests get_enhances get_supplements '
    'get_name get_version get_release get_arch get_vendor get_url get_vcs get_license get_packager get_build_host '
    'get_cookie get_source_rpm get_summary get_description get_group get_epoch get_build_time get_installed_size').split()}
for _f in ('get_dependencies get_changelog_entries get_scriptlet get_pre_install_script get_post_install_script get_pre_uninstall_script get_post_uninstall_script '
           'get_pre_trans_script get_post_trans_script get_pre_untrans_script get_post_untrans_script get_verify_script').split():
    OBLIGATIONS['PackageMetadata::' + _f] = ['C05', 'C06']
for _f in 'get_provides get_requires get_conflicts get_obsoletes get_recommends get_suggests get_enhances get_supplements get_build_host'.split():
    OBLIGATIONS['PackageMetadata::' + _f] = ['C05', 'C06']
CANARIES = ['canary_c05_acc']
