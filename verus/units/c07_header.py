"""C07 / C09 (cpio entry headers): Builder::into_header emits the 110-byte newc header - magic, thirteen fields
of eight hexadecimal digits each in the order of the format, among them the file size and the name length
(+1 for the terminator) - followed by the name, a NUL and zero padding, and the whole is a multiple of 4 bytes
long; stripped_cpio_header emits magic + 8 hex digits of the file index + 2 NUL = 16 bytes.

`format!("{:08x}", x)` is a helper whose contract is "exactly eight digits, a function of the value, for values
below 2^32" - for the name length that is a PRECONDITION (names shorter than 4 GiB)."""
import re
from vunit import Raw, Prelude, Fn, Decl
from common import *

NAME = 'c07_header'
PAY = 'src/rpm/payload.rs'
HEX = (re.compile(r'format!\("\{:08x\}", ((?:[^()]|\([^()]*\))*)\)'), r'hex8(\1)', None,
       'R42-format!("{:08x}", x): eight lowercase hex digits of a value below 2^32 (a stand-in string type)')
EXTB = (re.compile(r'header\.extend\(((?:[^()]|\((?:[^()]|\([^()]*\))*\))*\.as_bytes\(\))\);'), r'header.extend_from_slice(\1);', None, 'R12-Vec::extend with a byte slice')
MAGIC = (re.compile(r'header\.extend\((MAGIC_NUMBER_NEWCRC|MAGIC_NUMBER_NEWASCII|STRIPPED_CPIO_MAGIC_NUMBER)\);'), r'header.extend_from_slice(magic_bytes(Magic::\1));', None,
         'R24-byte-string constants as an uninterpreted 6-byte value per kind')
PADX = ('header.extend(pad);', 'header.extend_from_slice(pad.as_slice());', None, 'R12-Vec::extend with a Vec')

PARTS = [Prelude('head.rs'), Prelude('serspec.rs'), Decl(PAY, 'const', 'HEADER_LEN'), Decl(PAY, 'const', 'STRIPPED_CPIO_HEADER_LEN')] + [
    Decl(PAY, 'struct', 'Builder'),
    Raw('''
global size_of usize == 8;   // A-64BIT
pub uninterp spec fn utf8(s: Seq<char>) -> Seq<u8>;
#[verifier::external_body]
pub fn string_bytes(s: &String) -> (r: &[u8]) ensures r@ == utf8(s@) { s.as_bytes() }
/// `String::len()`: the byte length
#[verifier::external_body]
pub fn string_len(s: &String) -> (r: usize) ensures r == utf8(s@).len() { s.len() }
/// `s.chars().count()`: the number of characters, which is NOT the byte length unless the text is ASCII
#[verifier::external_body]
pub fn string_chars(s: &String) -> (r: usize) ensures r == s@.len() { s.chars().count() }
#[allow(non_camel_case_types)]
pub enum Magic { MAGIC_NUMBER_NEWASCII, MAGIC_NUMBER_NEWCRC, STRIPPED_CPIO_MAGIC_NUMBER }
pub uninterp spec fn magic_seq(m: Magic) -> Seq<u8>;
#[verifier::external_body]
pub fn magic_bytes(m: Magic) -> (r: &'static [u8]) ensures r@ == magic_seq(m), r@.len() == 6 { unimplemented!() }
/// the eight hexadecimal digits of a 32-bit value (K:k_stripped_header checks one value on the real format!)
pub uninterp spec fn hex8_spec(x: int) -> Seq<u8>;
pub trait Hex8Arg { spec fn val(&self) -> int; }
impl Hex8Arg for u32 { open spec fn val(&self) -> int { *self as int } }
impl Hex8Arg for usize { open spec fn val(&self) -> int { *self as int } }
/// the String `format!("{:08x}", x)` returns: only its bytes are used
pub struct HexStr { pub bytes: Ghost<Seq<u8>> }
impl HexStr {
    #[verifier::external_body]
    pub fn as_bytes(&self) -> (r: &[u8]) ensures r@ == self.bytes@ { unimplemented!() }
}
#[verifier::external_body]
pub fn hex8<T: Hex8Arg>(x: T) -> (r: HexStr)
    requires 0 <= x.val() <= 0xffff_ffff,        // wider values print more than eight digits
    ensures r.bytes@ == hex8_spec(x.val()), r.bytes@.len() == 8,
{ unimplemented!() }
pub open spec fn padlen(len: int) -> int { (4 - len % 4) % 4 }
/// V:c07_payload:pad
#[verifier::external_body]
pub fn pad(len: usize) -> (r: Option<Vec<u8>>)
    ensures match r { Some(v) => v@ == zeros(padlen(len as int)) && padlen(len as int) > 0, None => padlen(len as int) == 0 },
{ unimplemented!() }
/// the newc header of an entry, field by field
pub open spec fn newc_header(b: Builder, file_size: u32, checksum: Option<u32>) -> Seq<u8> {
    let nl = utf8(b.name@).len() as int + 1;
    magic_seq(if checksum is Some { Magic::MAGIC_NUMBER_NEWCRC } else { Magic::MAGIC_NUMBER_NEWASCII })
        + hex8_spec(b.ino as int) + hex8_spec(b.mode as int) + hex8_spec(b.uid as int) + hex8_spec(b.gid as int)
        + hex8_spec(b.nlink as int) + hex8_spec(b.mtime as int) + hex8_spec(file_size as int)
        + hex8_spec(b.dev_major as int) + hex8_spec(b.dev_minor as int) + hex8_spec(b.rdev_major as int) + hex8_spec(b.rdev_minor as int)
        + hex8_spec(nl) + hex8_spec(match checksum { Some(c) => c as int, None => 0 })
        + utf8(b.name@) + seq![0u8] + zeros(padlen(110 + nl))
}
impl Builder {
'''),
    Fn(PAY, 'into_header', impl='impl Builder',
       subs=[ret(), ('header.extend(self.name.as_bytes());', 'header.extend_from_slice(string_bytes(&self.name));', 1, 'A-UTF8'), HEX, EXTB, MAGIC, PADX,
             (re.compile(r'\bself\.name\.len\(\)'), 'string_len(&self.name)', None, 'A-UTF8: byte length'),
             (re.compile(r'\bself\.name\.chars\(\)\.count\(\)'), 'string_chars(&self.name)', None, 'A-UTF8: number of characters (not bytes)'),
             ('Vec::with_capacity(HEADER_LEN)', 'Vec::<u8>::with_capacity(HEADER_LEN)', 1, 'R9-type-annotation'),
             ],
       spec='''    requires utf8(self.name@).len() < 0xffff_ffff,      // the name length field has eight digits
    ensures
        r@ =~= newc_header(self, file_size, file_checksum),
        r@.len() == 110 + utf8(self.name@).len() + 1 + padlen(110 + utf8(self.name@).len() as int + 1),
        r@.len() % 4 == 0,''',
       prologue='proof { assert(zeros(0) =~= Seq::<u8>::empty()); }'),
    Raw('}\n'),
    Fn(PAY, 'stripped_cpio_header',
       subs=[ret(), HEX, EXTB, MAGIC, PADX,
             ('Vec::with_capacity(STRIPPED_CPIO_HEADER_LEN)', 'Vec::<u8>::with_capacity(STRIPPED_CPIO_HEADER_LEN)', 1, 'R9-type-annotation')],
       spec='''    ensures
        r@ =~= magic_seq(Magic::STRIPPED_CPIO_MAGIC_NUMBER) + hex8_spec(file_index as int) + zeros(2),
        r@.len() == 16,'''),
    Raw('''
// vacuity canary: must FAIL
pub fn canary_c07_header(b: Builder)
    requires utf8(b.name@).len() < 100,
{
    let h = b.into_header(0, None);
    assert(h@.len() == 110);
}
'''),
] + TAIL

OBLIGATIONS = {'Builder::into_header': ['C07', 'C09'], 'stripped_cpio_header': ['C07', 'C09']}
CANARIES = ['canary_c07_header']
