"""C12 (containment and no panic): Package::extract performs every file-system operation - other than creating
the target directory itself - at a path that is the target followed by NORMAL components only, and never at
or below a symbolic link this extraction has created; unknown file types and paths with other components are
errors.  For every package, hostile ones included: the directory names, file paths, modes and link targets
are arbitrary here.

Verbatim bodies of extract and relative_to_root.  std::path is a stand-in over component sequences (join of a
relative path appends, join of an absolute one REPLACES - the hazard); std::fs calls are given the ghost
extraction context (target, symlinks created so far) and REQUIRE containment.  That the operating system
resolves such a path inside the target (no other process, the target freshly created) is assumed."""
import re
from vunit import Raw, Prelude, Fn, Decl
from common import *

NAME = 'c12_extract'
_RCV = r'(Path::new\(&[\w.]+\)|\b\w+)'   # a path-valued receiver: a name or `Path::new(&x)`
ERR = (re.compile(r'Error::InvalidDestinationPath \{\s*path: [^,]*,\s*desc: ("[^"]*"),\s*\}', re.S), r'Error::InvalidDestinationPath { path: err_text(), desc: \1 }', None,
       'R12-error path text: any String')

LOOP_COMPS = '''            invariant
                i_c <= comps.len(),
                comps@.len() == path.comps@.len(),
                forall|j: int| 0 <= j < comps@.len() ==> comp_view(#[trigger] comps@[j]) == path.comps@[j],
                all_normal(relative.comps@),
                forall|j: int| 0 <= j < i_c ==> allowed(#[trigger] path.comps@[j]),
            decreases comps.len() - i_c,'''
LOOP_DIRS = '''            invariant
                i_d <= dirs_v.len(),
                created == Seq::<Seq<Comp>>::empty(),
            decreases dirs_v.len() - i_d,'''
LOOP_FILES = '''            invariant
                i_f <= files_v.len(),
                // the program's own list covers every symbolic link created so far
                forall|k: int| 0 <= k < created.len() ==> covered(links@, #[trigger] created[k]),
            decreases files_v.len() - i_f,'''

TAIL_FILES = '''proof {
                // the list of links the program keeps still covers every symbolic link created (it must have pushed the new one)
                assert forall|k: int| 0 <= k < created.len() implies covered(links@, #[trigger] created[k]) by {
                    if k < created0.len() {
                        assert(created[k] == created0[k]);
                        assert(covered(links0, created0[k]));
                        let j = choose|j: int| 0 <= j < links0.len() && (#[trigger] links0[j]).comps@ == created0[k];
                        assert(links@[j] == links0[j]);
                    } else {
                        assert(links@[links@.len() - 1].comps@ == created[k]);
                    }
                }
            }
        '''

PARTS = [Prelude('head.rs')] + [
    Raw('''
pub enum Error { InvalidDestinationPath { path: String, desc: &'static str }, Io, Other }
#[verifier::external_body]
pub fn err_text() -> String { unimplemented!() }

// ---- paths as component sequences -------------------------------------------------------------------
pub enum Comp { Prefix, Root, Cur, Parent, Normal(Seq<char>) }
pub open spec fn all_normal(p: Seq<Comp>) -> bool { forall|i: int| 0 <= i < p.len() ==> (#[trigger] p[i]) is Normal }
/// components relative_to_root lets pass
pub open spec fn allowed(c: Comp) -> bool { c is Root || c is Cur || c is Normal }
pub open spec fn is_prefix(a: Seq<Comp>, b: Seq<Comp>) -> bool { a.len() <= b.len() && forall|i: int| 0 <= i < a.len() ==> a[i] == b[i] }
/// C12: an operation at path p stays inside the target `root` given the symbolic links created so far
pub open spec fn inside(root: Seq<Comp>, created: Seq<Seq<Comp>>, p: Seq<Comp>) -> bool {
    &&& is_prefix(root, p)
    &&& all_normal(p.subrange(root.len() as int, p.len() as int))                    // no "..", no second root below the target
    &&& forall|k: int| 0 <= k < created.len() ==> !is_prefix(#[trigger] created[k], p)   // not at or below a link of the package
}
pub struct Path { pub comps: Ghost<Seq<Comp>> }
/// the program's list of links holds this path
pub open spec fn covered(links: Seq<PathBuf>, c: Seq<Comp>) -> bool { exists|j: int| 0 <= j < links.len() && (#[trigger] links[j]).comps@ == c }
pub struct PathBuf { pub comps: Ghost<Seq<Comp>> }
pub struct OsName { pub text: Ghost<Seq<char>> }
impl Copy for OsName {}
impl Clone for OsName { fn clone(&self) -> Self { *self } }
pub enum Component { Prefix, RootDir, CurDir, ParentDir, Normal(OsName) }
impl Copy for Component {}
impl Clone for Component { fn clone(&self) -> Self { *self } }
pub open spec fn comp_view(c: Component) -> Comp {
    match c { Component::Prefix => Comp::Prefix, Component::RootDir => Comp::Root, Component::CurDir => Comp::Cur, Component::ParentDir => Comp::Parent, Component::Normal(n) => Comp::Normal(n.text@) }
}
/// R8: `for component in path.components()`
#[verifier::external_body]
pub fn path_components(p: &Path) -> (r: Vec<Component>)
    ensures r@.len() == p.comps@.len(), forall|j: int| 0 <= j < r@.len() ==> comp_view(#[trigger] r@[j]) == p.comps@[j],
{ unimplemented!() }
impl Path {
    /// `Path::new(&String)`: whatever components the text has
    #[verifier::external_body]
    pub fn new(s: &String) -> (r: &Path) { unimplemented!() }
    #[verifier::external_body]
    pub fn to_string_lossy(&self) -> CowStr { unimplemented!() }
    /// queries on a path (e.g. on a link target): functions of its components
    #[verifier::external_body]
    pub fn is_absolute(&self) -> (r: bool) ensures r == (self.comps@.len() > 0 && (self.comps@[0] is Root || self.comps@[0] is Prefix)) { unimplemented!() }
    #[verifier::external_body]
    pub fn is_relative(&self) -> (r: bool) ensures r == !(self.comps@.len() > 0 && (self.comps@[0] is Root || self.comps@[0] is Prefix)) { unimplemented!() }
    #[verifier::external_body]
    pub fn has_root(&self) -> (r: bool) ensures r == (self.comps@.len() > 0 && (self.comps@[0] is Root || self.comps@[0] is Prefix)) { unimplemented!() }
    /// std: "If path is absolute, it replaces the current path" - else the components are appended
    #[verifier::external_body]
    pub fn join(&self, rel: PathBuf) -> (r: PathBuf)
        ensures all_normal(rel.comps@) ==> r.comps@ == self.comps@ + rel.comps@,
    { unimplemented!() }
}
impl PathBuf {
    #[verifier::external_body]
    pub fn new() -> (r: PathBuf) ensures r.comps@ == Seq::<Comp>::empty() { unimplemented!() }
    /// pushing a normal name appends it
    #[verifier::external_body]
    pub fn push(&mut self, name: OsName) ensures final(self).comps@ == old(self).comps@.push(Comp::Normal(name.text@)) { unimplemented!() }
    #[verifier::external_body]
    pub fn as_path(&self) -> (r: &Path) ensures r.comps@ == self.comps@ { unimplemented!() }
    /// std: the path without its final component, if there is one
    #[verifier::external_body]
    pub fn parent(&self) -> (r: Option<&Path>)
        ensures match r { Some(p) => self.comps@.len() > 0 && p.comps@ == self.comps@.drop_last(), None => self.comps@.len() == 0 },
    { unimplemented!() }
    #[verifier::external_body]
    pub fn to_string_lossy(&self) -> CowStr { unimplemented!() }
    #[verifier::external_body]
    pub fn exists(&self) -> bool { unimplemented!() }
    #[verifier::external_body]
    pub fn symlink_metadata(&self) -> Result<FsMeta, Error> { unimplemented!() }
}
pub struct CowStr;
impl CowStr { #[verifier::external_body] pub fn to_string(&self) -> String { unimplemented!() } }
pub struct FsMeta;
/// R37: `links.iter().any(|link| file_path.starts_with(link))`: some element is a component-wise prefix of the path
pub trait HasComps { spec fn comps_view(&self) -> Seq<Comp>; }
impl HasComps for PathBuf { open spec fn comps_view(&self) -> Seq<Comp> { self.comps@ } }
impl HasComps for Path { open spec fn comps_view(&self) -> Seq<Comp> { self.comps@ } }
impl HasComps for &Path { open spec fn comps_view(&self) -> Seq<Comp> { self.comps@ } }
/// R46: `p.components().any(|c| c == Component::X)` / `.any(|c| matches!(c, Component::X))`: some component is of that kind
#[verifier::external_body]
pub fn has_component(p: &Path, c: Component) -> (r: bool)
    ensures r == exists|j: int| 0 <= j < p.comps@.len() && #[trigger] p.comps@[j] == comp_view(c),
{ unimplemented!() }
#[verifier::external_body]
pub fn has_abnormal_component(p: &Path) -> (r: bool)
    ensures r == exists|j: int| 0 <= j < p.comps@.len() && !(#[trigger] p.comps@[j] is Normal),
{ unimplemented!() }
#[verifier::external_body]
pub fn any_is_prefix<P: HasComps>(links: &Vec<PathBuf>, p: &P) -> (r: bool)
    ensures r == exists|j: int| 0 <= j < links@.len() && is_prefix((#[trigger] links@[j]).comps@, p.comps_view()),
{ unimplemented!() }

// ---- std::fs with the ghost extraction context: every call REQUIRES containment ---------------------
pub mod fs {
    use super::*;
    pub struct Permissions;
    impl Permissions { #[verifier::external_body] pub fn from_mode(m: u32) -> Permissions { unimplemented!() } }
    pub struct File;
    impl File {
        #[verifier::external_body]
        pub fn create(p: &PathBuf, Ghost(root): Ghost<Seq<Comp>>, Ghost(created): Ghost<Seq<Seq<Comp>>>) -> (r: Result<File, Error>)
            requires inside(root, created, p.comps@),
        { unimplemented!() }
        #[verifier::external_body]
        pub fn write_all(&mut self, b: &Vec<u8>) -> Result<(), Error> { unimplemented!() }
    }
    /// creating the target directory itself
    #[verifier::external_body]
    pub fn create_dir(p: &Path) -> Result<(), Error> { unimplemented!() }
    #[verifier::external_body]
    pub fn create_dir_all(p: &PathBuf, Ghost(root): Ghost<Seq<Comp>>, Ghost(created): Ghost<Seq<Seq<Comp>>>) -> (r: Result<(), Error>)
        requires inside(root, created, p.comps@),
    { unimplemented!() }
    #[verifier::external_body]
    pub fn set_permissions(p: &PathBuf, perms: Permissions, Ghost(root): Ghost<Seq<Comp>>, Ghost(created): Ghost<Seq<Seq<Comp>>>) -> (r: Result<(), Error>)
        requires inside(root, created, p.comps@),
    { unimplemented!() }
    #[verifier::external_body]
    pub fn remove_file(p: &PathBuf, Ghost(root): Ghost<Seq<Comp>>, Ghost(created): Ghost<Seq<Seq<Comp>>>) -> (r: Result<(), Error>)
        requires inside(root, created, p.comps@),
    { unimplemented!() }
    #[verifier::external_body]
    pub fn symlink(target: &String, p: &PathBuf, Ghost(root): Ghost<Seq<Comp>>, Ghost(created): Ghost<Seq<Seq<Comp>>>) -> (r: Result<(), Error>)
        requires inside(root, created, p.comps@),
    { unimplemented!() }
}
// ---- the package: directory names, file paths, modes, link targets are ARBITRARY --------------------
pub enum IndexTag { RPMTAG_DIRNAMES }
pub struct HeaderS;
impl HeaderS {
    #[verifier::external_body]
    pub fn get_entry_data_as_string_array(&self, tag: IndexTag) -> Result<&[String], Error> { unimplemented!() }
}
pub struct PackageMetadata { pub header: HeaderS }
pub struct Package { pub metadata: PackageMetadata }
pub enum FileMode { Dir { permissions: u16 }, Regular { permissions: u16 }, SymbolicLink { permissions: u16 }, Invalid { raw_mode: u16 } }
impl Copy for FileMode {}
impl Clone for FileMode { fn clone(&self) -> Self { *self } }
impl FileMode { #[verifier::external_body] pub fn permissions(&self) -> u16 { unimplemented!() } }
pub struct FileEntry { pub path: PathBuf, pub mode: FileMode, pub linkto: String }
pub struct RpmFile { pub metadata: FileEntry, pub content: Vec<u8> }
pub struct FileIterator;
/// R8: `for file in self.files()?` / `for dir in dirs`
#[verifier::external_body]
pub fn files_vec(it: FileIterator) -> Vec<Result<RpmFile, Error>> { unimplemented!() }
#[verifier::external_body]
pub fn take_file(v: &Vec<Result<RpmFile, Error>>, i: usize) -> (r: Result<RpmFile, Error>) requires i < v@.len() { unimplemented!() }
#[verifier::external_body]
pub fn slice_items<'a>(s: &'a [String]) -> (r: Vec<&'a String>) ensures r@.len() == s@.len() { unimplemented!() }
#[verifier::external_body]
pub fn u16_into_u32(x: u16) -> (r: u32) ensures r == x { unimplemented!() }
impl Package {
    #[verifier::external_body]
    pub fn files(&self) -> Result<FileIterator, Error> { unimplemented!() }
}
pub proof fn lemma_inside_join(root: Seq<Comp>, rel: Seq<Comp>, created: Seq<Seq<Comp>>)
    requires all_normal(rel), forall|k: int| 0 <= k < created.len() ==> !is_prefix(#[trigger] created[k], root + rel),
    ensures inside(root, created, root + rel),
{
    assert((root + rel).subrange(root.len() as int, (root + rel).len() as int) =~= rel);
}
'''),
    Fn(PKG, 'relative_to_root',
       subs=[ret(), ERR,
             ('std::path::Component::', 'Component::', None, 'R5-path of the stand-in enum'),
             ('fn relative_to_root', '#[verifier::loop_isolation(false)]\nfn relative_to_root', 1, 'verifier attribute'),
             ('        Ok(relative)\n' if False else 'Ok(relative)', 'Ok(relative)', None, 'no-op'),
             ],
       spec='''    ensures
        r is Ok <==> forall|j: int| 0 <= j < path.comps@.len() ==> allowed(#[trigger] path.comps@[j]),   // "..": an error
        r is Ok ==> all_normal(r->Ok_0.comps@),''',
       index_loops={0: ('i_c', LOOP_COMPS, '', ('path.components()', 'let comps = path_components(path);', 'comps'))},
       ),
    Raw('impl Package {\n'),
    Fn(PKG, 'extract', impl='impl Package',
       subs=[ret(), ERR,
             ('std::path::Component::', 'Component::', None, 'R5-path of the stand-in enum'),
             ('pub fn extract(&self, dest: impl AsRef<Path>)', '#[verifier::loop_isolation(false)]\n    pub fn extract(&self, dest: &Path)', 1, 'R5-impl AsRef<Path> instantiated at &Path; verifier attribute'),
             ('        let dest = dest.as_ref();\n', '        let ghost mut created: Seq<Seq<Comp>> = Seq::empty();   // ghost: the symbolic links created so far\n', 1, 'R5-as_ref on &Path is the identity; ghost state declared'),
             ('relative_to_root(&file.metadata.path)?', 'relative_to_root(file.metadata.path.as_path())?', 1, 'R5-&PathBuf to &Path deref'),
             (re.compile(r'\b(\w+)\.iter\(\)\.any\(\|(\w+)\| (\w+)\.starts_with\(\2\)\)'), r'any_is_prefix(&\1, &\3)', 1, 'R37-any element is a prefix of the path'),
             (re.compile(_RCV + r'\s*\.components\(\)\s*\.any\(\s*\|(\w+)\|\s*(?:\2 == (Component::\w+)|matches!\(\2, (Component::\w+)\))\s*\)'), lambda m: 'has_component(%s, %s)' % (m.group(1), m.group(3) or m.group(4)), None, 'R46-some component of the path is of a given kind'),
             (re.compile(_RCV + r'\s*\.components\(\)\s*\.any\(\s*\|(\w+)\|\s*!matches!\(\2, Component::Normal\(_\)\)\s*\)'), r'has_abnormal_component(\1)', None, 'R46-some component of the path is not a plain name'),
             (re.compile(_RCV + r'\s*\.components\(\)\s*\.all\(\s*\|(\w+)\|\s*matches!\(\2, Component::Normal\(_\)\)\s*\)'), r'!has_abnormal_component(\1)', None, 'R46-every component of the path is a plain name'),
             (re.compile(r'fs::(create_dir_all|remove_file)\(&(\w+)\)'), r'fs::\1(&\2, Ghost(dest.comps@), Ghost(created))', None, 'R38-fs call with the ghost extraction context'),
             (re.compile(r'fs::set_permissions\(&(\w+), (\w+)\)'), r'fs::set_permissions(&\1, \2, Ghost(dest.comps@), Ghost(created))', None, 'R38'),
             (re.compile(r'fs::File::create\(&(\w+)\)'), r'fs::File::create(&\1, Ghost(dest.comps@), Ghost(created))', None, 'R38'),
             (re.compile(r'std::os::unix::fs::symlink\(&([\w.]+), &(\w+)\)\?;'), r'fs::symlink(&\1, &\2, Ghost(dest.comps@), Ghost(created))?;\n                    proof { created = created.push(\2.comps@); }', None, 'R38 + ghost update: a symbolic link now exists at that path'),
             ('file.metadata.mode.permissions().into()', 'u16_into_u32(file.metadata.mode.permissions())', 1, 'R7-u16 into u32'),
             ('let dir_path = dest.join(', 'let dir_rel = ', 1, 'split for the proof hint'),
             ('relative_to_root(Path::new(dir))?);', 'relative_to_root(Path::new(dir))?;\n            proof { lemma_inside_join(dest.comps@, dir_rel.comps@, created); }\n            let dir_path = dest.join(dir_rel);', 1, 'split for the proof hint'),
             ('let file_path = dest.join(', 'let file_rel = ', 1, 'split for the proof hint'),
             ('relative_to_root(file.metadata.path.as_path())?);', 'relative_to_root(file.metadata.path.as_path())?;\n            let file_path = dest.join(file_rel);', 1, 'split for the proof hint'),
             ],
       spec='''    ensures true,
    // the obligations are the containment preconditions of the fs calls and the absence of panics''',
       index_loops={0: ('i_d', LOOP_DIRS, '', ('dirs', 'let dirs_v = slice_items(dirs);', 'dirs_v')),
                    1: ('i_f', LOOP_FILES, TAIL_FILES, ('self.files()?', 'let files_v = files_vec(self.files()?);', 'files_v',
                                                       'take_file(&{v}, {i}); let ghost links0 = links@; let ghost created0 = created'))},
       before=[
               ('            let perms = fs::Permissions::from_mode(', '''            proof {
                // not at or below a link: the program's list covers the links created, and none of its elements is a prefix
                assert forall|k: int| 0 <= k < created.len() implies !is_prefix(#[trigger] created[k], file_path.comps@) by {
                    assert(covered(links@, created[k]));
                    let j = choose|j: int| 0 <= j < links@.len() && (#[trigger] links@[j]).comps@ == created[k];
                }
                lemma_inside_join(dest.comps@, file_rel.comps@, created);
            }
''')],
       ),
    Raw('''}
// vacuity canaries: must FAIL
pub fn canary_c12(root: &Path, p: &PathBuf)
{
    let ghost created: Seq<Seq<Comp>> = Seq::empty();
    let r = fs::create_dir_all(p, Ghost(root.comps@), Ghost(created));   // an arbitrary path is not contained
}
'''),
] + TAIL

OBLIGATIONS = {'relative_to_root': ['C12', 'C04'], 'Package::extract': ['C12', 'C04'],   # C04: no panic on hostile packages
               'lemma_inside_join': ['C12']}
CANARIES = ['canary_c12']
