"""C07 / C04: FileIterator::next - pairing of archive entries with header file entries, indexing
and allocation, on the verbatim body; the cpio entry reader appears through its contract."""
import re
from vunit import Raw, Prelude, Fn, Decl
from common import *

NAME = 'c07_iter'

PARTS = [Prelude('head.rs'), Prelude('serspec.rs')] + io_head() + [
    Prelude('alloc.rs'),
    Raw('''
/// R5: FileEntry is opaque metadata here (path, mode, owner, ... irrelevant to the pairing); `id`
/// stands for all of it, `size` is the recorded size.
pub struct FileEntry { pub size: usize, pub id: u64 }
impl Clone for FileEntry {
    fn clone(&self) -> (r: Self) ensures r == *self { FileEntry { size: self.size, id: self.id } }
}
pub mod io {
    use super::*;
    pub enum ErrorKind { InvalidData, UnexpectedEof, Other }
    pub struct Error {}
}
/// R5: FileIterator holds `Box<dyn io::Read>`; generic over the archive here.
pub struct FileIterator<A> { pub file_entries: Vec<FileEntry>, pub archive: A, pub count: usize }
/// the cpio entry reader as FileIterator sees it (contracts: unit c07_payload for read / finish
/// accounting; file_entry_index: K:k_file_entry_index on the real function)
pub mod payload {
    use super::*;
    pub struct Reader { pub trailer: bool, pub denoted: Option<usize>, pub body: Ghost<Seq<u8>> }
    impl Reader {
        #[verifier::external_body]
        pub fn new<A>(archive: &mut A, file_entries: &[FileEntry]) -> (r: Result<Reader, io::Error>) { unimplemented!() }
        #[verifier::external_body]
        pub fn is_trailer(&self) -> (r: bool) ensures r == self.trailer { unimplemented!() }
        /// the header file entry the archive entry names (by path for cpio, by index for stripped)
        #[verifier::external_body]
        pub fn file_entry_index(&self, file_entries: &[FileEntry]) -> (r: Option<usize>)
            ensures r == self.denoted, r is Some ==> r->0 < file_entries@.len(),
        { unimplemented!() }
        #[verifier::external_body]
        pub fn read_to_end(&mut self, buf: &mut Vec<u8>) -> (r: Result<usize, io::Error>)
            ensures r is Ok ==> final(buf)@ == old(buf)@ + old(self).body@,
                final(self).denoted == old(self).denoted, final(self).body == old(self).body,
        { unimplemented!() }
        #[verifier::external_body]
        pub fn finish(self) -> (r: Result<(), io::Error>) { unimplemented!() }
    }
}
'''),
    Decl(PKG, 'struct', 'RpmFile'),
    Raw('impl<A> FileIterator<A> {\n'),
    Fn(PKG, 'next', impl="impl Iterator for FileIterator<'_>",
       subs=[('fn next(&mut self) -> Option<Self::Item>', 'pub fn next(&mut self) -> (r: Option<Result<RpmFile, Error>>)', 1, 'R10-trait-impl-as-inherent-fn'),
             (re.compile(r'Error::Io\((?:[^()]|\((?:[^()]|\([^()]*\))*\))*\)'), 'Error::Io', None, 'R4-io-error-construction'),
             ('Vec::new()', 'Vec::<u8>::new()', None, 'R9-type-annotation'),
             ] + ALLOC_RULES,
       spec='''    requires old(self).count <= old(self).file_entries@.len(),
    ensures
        final(self).file_entries == old(self).file_entries,
        final(self).count <= final(self).file_entries@.len(),
        // C07: the content is paired with the metadata of the file the archive entry NAMES
        (r is Some && r->0 is Ok) ==> exists|rd: payload::Reader| {
            &&& rd.denoted is Some
            &&& rd.denoted->0 < old(self).file_entries@.len()
            &&& r->0->Ok_0.metadata == old(self).file_entries@[rd.denoted->0 as int]
            &&& #[trigger] r->0->Ok_0.content@ == rd.body@
        },''',
       before=[('Some(Ok(RpmFile {', 'proof { assert(content@ =~= entry_reader.body@); }\n                ')]),
    Raw('''}
// vacuity canary: must FAIL
pub fn canary_c07_iter<A>(it: &mut FileIterator<A>)
    requires old(it).count <= old(it).file_entries@.len(),
{
    let r = it.next();
    assert(r is None);
}
'''),
] + TAIL

OBLIGATIONS = {'FileIterator::next': ['C07', 'C04']}
CANARIES = ['canary_c07_iter']
