"""C03 - digest verification succeeds exactly when all recorded digests match."""
import re
from vunit import Raw, Prelude, Fn, Decl
from common import *

NAME = 'c03_digests'
R11 = 'R11-content-comparison'

PARTS = HEAD + consts('LEAD_SIZE', 'INDEX_HEADER_SIZE', 'INDEX_ENTRY_SIZE', 'HEADER_MAGIC') + io_head() + header_types() + [
    Prelude('hdrspec.rs'),
] + tag_enums() + [
    Prelude('getters.rs'),
    Prelude('crypto.rs'),
    Prelude('alloc.rs'),
    Raw('pub struct Lead { pub bytes: [u8; 96] }\n'),
    Decl(PKG, 'struct', 'PackageMetadata'),
    Decl(PKG, 'struct', 'Package'),
    header_write_contract(),
    Raw(DIGEST_SPEC + 'impl Package {\n'),
    Fn(PKG, 'verify_digests', impl='impl Package',
       subs=[ret(),
             (re.compile(r'\b([A-Za-z_]\w*) != ([A-Za-z_]\w*(?:\[\w+\])?)'), r'!veq(&\1, &\2)', None, R11),
             (re.compile(r'\b([A-Za-z_]\w*) == ([A-Za-z_]\w*(?:\[\w+\])?)'), r'veq(&\1, &\2)', None, R11),
             (re.compile(r'Error::InvalidTagValueEnumVariant\s*\{[^}]*\}'), 'Error::Other', None, 'R4-error-message'),
             ('.expect("Completely unknown payload digest algorithm")', '.unwrap()', None, 'R4-expect-message'),
             ] + ALLOC_RULES,
       spec='''    ensures
        r is Ok <==> digests_ok(*self),
        r is Err ==> (r->Err_0 is DigestMismatchError || (payload_recorded(*self) && payload_algo(*self) != 8)),
        (payload_recorded(*self) && payload_algo(*self) != 8) ==> r is Err,''',
       prologue='proof { broadcast use axiom_hex_injective; }',
       ),
    Raw('''}
// vacuity canaries: must FAIL
pub fn canary_c03_ok(p: &Package)
{
    let r = p.verify_digests();
    assert(r is Err);
}
pub fn canary_c03_err(p: &Package)
{
    let r = p.verify_digests();
    assert(r is Ok);
}
'''),
] + TAIL

OBLIGATIONS = {
    'Package::verify_digests': ['C03', 'C04', 'C02'],
}
CANARIES = ['canary_c03_ok', 'canary_c03_err']
