"""C03 - digest verification succeeds exactly when all recorded digests match."""
import re
from vunit import Raw, Prelude, Fn, Decl
from common import *

NAME = 'c03_digests'
STR_BYTES = '''
/// A-UTF8: `str::as_bytes` / `String::as_bytes`: the UTF-8 bytes, an injective function of the characters
pub uninterp spec fn utf8(s: Seq<char>) -> Seq<u8>;
pub broadcast axiom fn axiom_utf8_injective(a: Seq<char>, b: Seq<char>)
    ensures #![trigger utf8(a), utf8(b)] utf8(a) == utf8(b) ==> a == b;
pub trait StrLike { spec fn chars(&self) -> Seq<char>; }
impl StrLike for &str { open spec fn chars(&self) -> Seq<char> { self@ } }
impl StrLike for String { open spec fn chars(&self) -> Seq<char> { self@ } }
#[verifier::external_body]
pub fn str_bytes<'a, S: StrLike>(s: &'a S) -> (r: &'a [u8]) ensures r@ == utf8(s.chars()) { unimplemented!() }
/// `.len()`: number of BYTES (of a byte string, or of the UTF-8 encoding of a string)
pub trait VLen { spec fn nbytes(&self) -> nat; }
impl VLen for &[u8] { open spec fn nbytes(&self) -> nat { self@.len() } }
impl VLen for Vec<u8> { open spec fn nbytes(&self) -> nat { self@.len() } }
impl VLen for DigestOut { open spec fn nbytes(&self) -> nat { self.bytes@.len() } }
impl VLen for &str { open spec fn nbytes(&self) -> nat { utf8(self@).len() } }
impl VLen for String { open spec fn nbytes(&self) -> nat { utf8(self@).len() } }
#[verifier::external_body]
pub fn vlen<A: VLen>(a: &A) -> (r: usize) ensures r == a.nbytes() { unimplemented!() }
'''
R11 = 'R11-content-comparison'

_OPND = r'([A-Za-z_]\w*(?:\[\w+\])?)'
_ZOPND = r'((?:str_bytes\(&)?[A-Za-z_]\w*(?:\[\w+\])?\)?)'
ZIP_RULES = [
    (re.compile(_OPND + r'\.as_bytes\(\)'), r'str_bytes(&\1)', None, 'A-UTF8: the bytes of a string (injective)'),
    (re.compile(_ZOPND + r'\s*\.iter\(\)\s*\.zip\(\s*&?' + _ZOPND + r'(?:\s*\.iter\(\))?\s*\)\s*\.all\(\s*\|\(\s*(\w+)\s*,\s*(\w+)\s*\)\|\s*\3\s*==\s*\4\s*\)'),
     r'zip_all_eq(&\1, &\2)', None, 'R44-zip().all(==): equality of the common prefix'),
    (re.compile(_ZOPND + r'\s*\.iter\(\)\s*\.zip\(\s*&?' + _ZOPND + r'(?:\s*\.iter\(\))?\s*\)\s*\.fold\(\s*0(?:u8)?\s*,\s*\|\s*(\w+)\s*,\s*\(\s*(\w+)\s*,\s*(\w+)\s*\)\|\s*\3\s*\|\s*\(\s*\4\s*\^\s*\5\s*\)\s*\)\s*==\s*0'),
     r'zip_all_eq(&\1, &\2)', None, 'R44-zip().fold(0, acc | (x ^ y)) == 0: equality of the common prefix'),
    (re.compile(_OPND + r'\.len\(\) (==|!=) ' + _OPND + r'\.len\(\)'), r'vlen(&\1) \2 vlen(&\3)', None, 'R11-length of a byte string / string'),
]

PARTS = HEAD + consts('LEAD_SIZE', 'INDEX_HEADER_SIZE', 'INDEX_ENTRY_SIZE', 'HEADER_MAGIC') + io_head() + header_types() + [
    Prelude('hdrspec.rs'),
] + tag_enums() + [
    Prelude('getters.rs'),
    Prelude('crypto.rs'),
    Prelude('alloc.rs'),
    Raw('pub struct Lead { pub bytes: [u8; 96] }\n'),
    Decl(PKG, 'struct', 'PackageMetadata'),
    Decl(PKG, 'struct', 'Package'),
    header_write_contract(),
    Raw(DIGEST_SPEC + STR_BYTES + 'impl Package {\n'),
    Fn(PKG, 'verify_digests', impl='impl Package',
       subs=[ret()] + ZIP_RULES + [
             (re.compile(r'\b([A-Za-z_]\w*) != ([A-Za-z_]\w*(?:\[\w+\])?)'), r'!veq(&\1, &\2)', None, R11),
             (re.compile(r'\b([A-Za-z_]\w*) == ([A-Za-z_]\w*(?:\[\w+\])?)'), r'veq(&\1, &\2)', None, R11),
             (re.compile(r'Error::InvalidTagValueEnumVariant\s*\{[^}]*\}'), 'Error::Other', None, 'R4-error-message'),
             ('.expect("Completely unknown payload digest algorithm")', '.unwrap()', None, 'R4-expect-message'),
             ] + ALLOC_RULES,
       spec='''    ensures
        r is Ok <==> digests_ok(*self),
        r is Err ==> (r->Err_0 is DigestMismatchError || (payload_recorded(*self) && payload_algo(*self) != 8)),
        (payload_recorded(*self) && payload_algo(*self) != 8) ==> r is Err,''',
       prologue='proof { broadcast use axiom_hex_injective, axiom_utf8_injective; }',
       ),
    Raw('''}
// vacuity canaries: must FAIL
pub fn canary_c03_ok(p: &Package)
{
    let r = p.verify_digests();
    assert(r is Err);
}
pub fn canary_c03_err(p: &Package)
{
    let r = p.verify_digests();
    assert(r is Ok);
}
'''),
] + TAIL

OBLIGATIONS = {
    'Package::verify_digests': ['C03', 'C04', 'C02'],
}
CANARIES = ['canary_c03_ok', 'canary_c03_err']
