"""C07 (partial) / C04 / C09: cpio framing arithmetic - padding, reader size accounting, writer
size accounting - on the verbatim bodies of src/rpm/payload.rs."""
import re
from vunit import Raw, Prelude, Fn, Decl
from common import *

NAME = 'c07_payload'
PAY = 'src/rpm/payload.rs'
IORES = (re.compile(r'io::Result<([^{]+?)>\s*(?=/\*@SPEC@\*/|\{)'), r'Result<\1, Error> ', None, 'R4-io::Result')

READ_PREFIX = (re.compile(r'\.read\(&mut ([A-Za-z_][A-Za-z0-9_]*)\[\.\.([A-Za-z_][A-Za-z0-9_]*)\]\)'),
               lambda m: '.read_limited(%s, %s)' % (mut_ref(m, m.group(1)), m.group(2)), None, "R17'-read into a prefix slice")

PARTS = [Prelude('head.rs'), Raw('global size_of usize == 8;   // A-64BIT: the checks assume a 64-bit target\n'),
         Prelude('serspec.rs')] + io_head() + [
    Prelude('read.rs'),
    Prelude('alloc.rs'),
    Prelude('stdspecs.rs'),
    Prelude('stdspecs2.rs'),
    Raw('''
/// R4: io::Error::new(kind, msg) / io::ErrorKind - error construction has no effect on control flow
pub mod io {
    use super::*;
    pub enum ErrorKind { InvalidData, UnexpectedEof, Other }
    pub struct Error {}
    pub type Result<T> = core::result::Result<T, super::Error>;
    impl Error {
        #[verifier::external_body]
        pub fn new(kind: ErrorKind, msg: &str) -> (r: super::Error) { unimplemented!() }
    }
}
'''),
    Decl(PAY, 'const', 'HEADER_LEN'),
    Decl(PAY, 'const', 'STRIPPED_CPIO_HEADER_LEN'),
    Decl(PAY, 'enum', 'CpioEntryType'),
    Decl(PAY, 'struct', 'CpioEntry'),
    Decl(PAY, 'enum', 'RpmPayloadEntry'),
    Decl(PAY, 'struct', 'Reader', subs=[('R: Read', 'R: VReadExt', 1, R3)]),
    Decl(PAY, 'struct', 'Writer', subs=[('W: Write', 'W: VWrite', 1, R2)]),
    Raw('''
// ---- cpio (SVR4 newc) framing, from the format: every header+name and every file body is padded
// with NULs to a multiple of 4 bytes.
pub open spec fn padlen(len: int) -> int { (4 - len % 4) % 4 }
'''),
    Fn(PAY, 'pad', subs=[ret()] + ALLOC_RULES,
       spec='''    ensures
        match r {
            Some(v) => v@ == zeros(padlen(len as int)) && padlen(len as int) > 0,
            None => padlen(len as int) == 0,
        },''',
       after=[('Some(vec![0u8; repeat])', '')],
       before=[('let overhang', '')]),
    Raw('''
/// R5: FileEntry is opaque metadata here; only `size` is used by the entry reader
pub struct FileEntry { pub size: usize, pub id: u64 }
/// R24: `match magic.as_slice() { MAGIC_NUMBER_NEWASCII | MAGIC_NUMBER_NEWCRC => .., STRIPPED_.. => .., _ => .. }`
/// matches a byte slice against constant byte strings; modelled as a deterministic classifier.
#[derive(PartialEq, Eq)]
pub enum MagicKind { Newc, Crc, Stripped, Other }
pub uninterp spec fn magic_kind_spec(s: Seq<u8>) -> MagicKind;
#[verifier::external_body]
pub fn magic_kind(s: &[u8]) -> (r: MagicKind) ensures r == magic_kind_spec(s@) { unimplemented!() }
/// leaf: reads one 8-digit hex field (from_utf8 + from_str_radix: &str code, K:k_read_hex_u32 where it
/// finishes); any u32 may come back, exactly 8 bytes are consumed on Ok.
#[verifier::external_body]
pub fn read_hex_u32<R: VReadExt>(reader: &mut R) -> (r: io::Result<u32>)
    ensures r is Ok ==> old(reader).remaining().len() >= 8
        && final(reader).remaining() == old(reader).remaining().subrange(8, old(reader).remaining().len() as int),
{ unimplemented!() }
#[verifier::external_body]
pub fn last_is_nul(v: &Vec<u8>) -> (r: bool) ensures r == (v@.len() > 0 && v@[v@.len() - 1] == 0) { unimplemented!() }
/// R20': String::from_utf8(bytes).map_err(..)
#[verifier::external_body]
pub fn string_from_utf8(v: Vec<u8>) -> (r: io::Result<String>) { unimplemented!() }
/// R17: slice::get(i)
#[verifier::external_body]
pub fn slice_get(s: &[FileEntry], i: usize) -> (r: Option<&FileEntry>)
    ensures r is Some <==> i < s@.len(), r is Some ==> *r->0 == s@[i as int],
{ s.get(i) }
impl<R: VReadExt> Reader<R> {
'''),
    Fn(PAY, 'new', impl='impl<R: Read> Reader<R>',
       subs=[ret(),
             ('match magic.as_slice() {\n            MAGIC_NUMBER_NEWASCII | MAGIC_NUMBER_NEWCRC => {', 'match magic_kind(magic.as_slice()) {\n            MagicKind::Newc | MagicKind::Crc => {', 1, 'R24-magic-match'),
             ('match magic.as_slice() {\n                    MAGIC_NUMBER_NEWASCII => CpioEntryType::Newc,\n                    MAGIC_NUMBER_NEWCRC => CpioEntryType::Crc,', 'match magic_kind(magic.as_slice()) {\n                    MagicKind::Newc => CpioEntryType::Newc,\n                    MagicKind::Crc => CpioEntryType::Crc,', 1, 'R24-magic-match'),
             ('STRIPPED_CPIO_MAGIC_NUMBER => {', 'MagicKind::Stripped => {', 1, 'R24-magic-match'),
             ('unreachable!("can\'t happen")', 'unreached()', None, 'R6-unreachable->proof obligation'),
             ('name_bytes.last() != Some(&0)', '!last_is_nul(&name_bytes)', None, 'R11-Option<&u8>-comparison'),
             ('name_bytes.last() == Some(&0)', 'last_is_nul(&name_bytes)', None, 'R11-Option<&u8>-comparison'),
             (re.compile(r'String::from_utf8\(name_bytes\)\.map_err\(\|_\| \{.*?\}\)\?', re.S), 'string_from_utf8(name_bytes)?', None, "R20'-String::from_utf8"),
             ('file_entries.get(idx as usize)', 'slice_get(file_entries, idx as usize)', None, 'R17-slice-get'),
             ] + IOERR_RULES + ALLOC_RULES,
       loops={0: '''                    invariant name_bytes@.len() <= 4096,
                    decreases name_bytes@.len(),
'''},
       spec='''    ensures
        // C04: hostile cpio headers - no panic, bounded allocation (name buffer <= 4096), the
        // stripped file index is bounds-checked; C07: the size the reader will hand out
        r is Ok ==> r->Ok_0.bytes_read == 0,
        r is Ok ==> match r->Ok_0.entry {
            RpmPayloadEntry::Cpio(c) => r->Ok_0.file_size == c.file_size,
            RpmPayloadEntry::Stripped(idx) => idx < file_entries@.len() && r->Ok_0.file_size == file_entries@[idx as int].size,
        },'''),
    Fn(PAY, 'finish', impl='impl<R: Read> Reader<R>',
       subs=[ret(),
             ('io::copy(&mut self.inner.by_ref().take(remaining), &mut io::sink())?;', 'self.inner.skip_n(remaining)?;', None, "R16'-io::copy(take(n), sink)"),
             READ_PREFIX,
             ] + mut_self(),
       spec='''    requires self.bytes_read <= self.file_size,
    ensures
        // Ok: the rest of the entry and its alignment padding have been consumed
        r is Ok ==> {
            let r0 = self.inner.remaining();
            let rest = (self.file_size - self.bytes_read) as int;
            let k = if rest <= r0.len() { rest } else { r0.len() as int };
            let p = padlen(self.file_size as int);
            &&& r0.len() >= k + p
            &&& r->Ok_0.remaining() == r0.subrange(k + p, r0.len() as int)
        },''',
       before=[('Ok(self.inner)', '''proof {
            let r0 = self0.inner.remaining();
            let rest = (self0.file_size - self0.bytes_read) as int;
            let k = if rest <= r0.len() { rest } else { r0.len() as int };
            if r0.len() >= k + padlen(self0.file_size as int) {
                assert(this.inner.remaining() =~= r0.subrange(k + padlen(self0.file_size as int), r0.len() as int));
            }
        }
        ''')]),
    Fn(PAY, 'read', impl='impl<R: Read> Read for Reader<R>',
       subs=[ret(), ('fn read(', 'pub fn read(', 1, 'R10-trait-impl-as-inherent-fn'),
             ('(buf.len() as u64).min(remaining) as usize', 'min_u64(buf.len() as u64, remaining) as usize', None, 'R12-Ord::min'),
             READ_PREFIX],
       spec='''    requires old(self).bytes_read <= old(self).file_size,
    ensures
        final(self).file_size == old(self).file_size,
        final(self).bytes_read <= final(self).file_size,
        match r {
            // never hands out more than the entry still has, and accounts for exactly what it handed out
            Ok(n) => n <= old(buf)@.len()
                && n <= old(self).file_size - old(self).bytes_read
                && final(self).bytes_read == old(self).bytes_read + n
                && final(buf)@.subrange(0, n as int) == old(self).inner.remaining().subrange(0, n as int)
                && final(self).inner.remaining() == old(self).inner.remaining().subrange(n as int, old(self).inner.remaining().len() as int),
            Err(_) => final(self).bytes_read == old(self).bytes_read,
        },'''),
    # optional: an override of std's default `read_to_end` must still meet std's contract for
    # this reader (append exactly what repeated `read` would deliver) and the allocation rule
    Fn(PAY, 'read_to_end', impl='impl<R: Read> Read for Reader<R>', optional=True,
       subs=[ret(), ('fn read_to_end(', 'pub fn read_to_end(', 1, 'R10-trait-impl-as-inherent-fn'),
             (re.compile(r'self\.read\(&mut ([A-Za-z_][A-Za-z0-9_]*)\[([A-Za-z_][A-Za-z0-9_]*)\.\.\]\)'), lambda m: 'self.read_from(%s, %s)' % (mut_ref(m, m.group(1)), m.group(2)), None, "R17'-read into a suffix slice"),
             ] + ALLOC_RULES,
       spec='''    requires old(self).bytes_read <= old(self).file_size,
    ensures
        r is Ok ==> {
            let rest = (old(self).file_size - old(self).bytes_read) as int;
            let avail = old(self).inner.remaining();
            let k = if rest <= avail.len() { rest } else { avail.len() as int };
            &&& final(buf)@ == old(buf)@ + avail.subrange(0, k)
            &&& r->Ok_0 == k
        },'''),
    Raw('''
    /// R17': `self.read(&mut buf[start..])` - Reader::read on a suffix of buf (contract of V:Reader::read)
    #[verifier::external_body]
    pub fn read_from(&mut self, buf: &mut Vec<u8>, start: usize) -> (r: io::Result<usize>)
        requires old(self).bytes_read <= old(self).file_size, start <= old(buf)@.len(),
        ensures
            final(self).file_size == old(self).file_size, final(self).bytes_read <= final(self).file_size,
            final(buf)@.len() == old(buf)@.len(),
            final(buf)@.subrange(0, start as int) == old(buf)@.subrange(0, start as int),
            r is Ok ==> r->Ok_0 <= old(buf)@.len() - start
                && r->Ok_0 <= old(self).file_size - old(self).bytes_read
                && final(buf)@.subrange(start as int, start + r->Ok_0) == old(self).inner.remaining().subrange(0, r->Ok_0 as int),
    { unimplemented!() }
}
#[verifier::external_body]
pub fn min_u64(a: u64, b: u64) -> (r: u64) ensures r == (if a <= b { a } else { b }) { a.min(b) }
impl<W: VWrite> Writer<W> {
'''),
    Fn(PAY, 'try_write_header', impl='impl<W: Write> Writer<W>', subs=[ret()],
       spec='''    ensures
        final(self).written == old(self).written, final(self).file_size == old(self).file_size,
        final(self).header_size == old(self).header_size,
        match r {
            Ok(()) => final(self).header@.len() == 0 && final(self).inner.sunk() == old(self).inner.sunk() + old(self).header@,
            Err(_) => pre(old(self).inner.sunk(), final(self).inner.sunk()),
        },'''),
    Fn(PAY, 'do_finish', impl='impl<W: Write> Writer<W>', subs=[ret()],
       spec='''    requires old(self).header_size <= 0x7fff_ffff_ffff_ffff,   // header_size is a Vec length
    ensures
        r is Ok ==> final(self).inner.sunk() == old(self).inner.sunk() + old(self).header@
            + (if old(self).written == old(self).file_size { zeros(padlen(old(self).header_size + old(self).file_size)) } else { Seq::<u8>::empty() }),''',
       after=[('self.try_write_header()?;', '''
        proof { assert(zeros(0) =~= Seq::<u8>::empty()); assert(self.inner.sunk() + Seq::<u8>::empty() =~= self.inner.sunk()); }''')]),
    Fn(PAY, 'write', impl='impl<W: Write> Write for Writer<W>',
       subs=[ret(), ('fn write(', 'pub fn write(', 1, 'R10-trait-impl-as-inherent-fn')],
       spec='''    requires old(self).written <= old(self).file_size,
        buf@.len() <= 0x7fff_ffff_ffff_ffff,   // A-SLICE-LEN: Rust slices never exceed isize::MAX bytes
    ensures
        final(self).file_size == old(self).file_size, final(self).header_size == old(self).header_size,
        final(self).written <= final(self).file_size,
        match r {
            // accepts data only while it fits the announced size; the header goes out first
            Ok(n) => n <= buf@.len()
                && old(self).written + buf@.len() <= old(self).file_size
                && final(self).written == old(self).written + n
                && final(self).header@.len() == 0
                && final(self).inner.sunk() == old(self).inner.sunk() + old(self).header@ + buf@.subrange(0, n as int),
            Err(_) => final(self).written == old(self).written,
        },
        old(self).written + buf@.len() > old(self).file_size ==> r is Err,'''),
    Raw('''}
// composition: header, a body written in one piece, then finish  =>  hdr ++ body ++ NUL padding,
// 4-byte aligned whenever the header itself is (|hdr| % 4 == 0 is into_header's job: not proved here)
pub fn c07_writer_entry<W: VWrite>(w: &mut Writer<W>, body: &[u8])
    requires old(w).written == 0, old(w).file_size == body@.len(), old(w).header_size == old(w).header@.len(),
        old(w).header_size % 4 == 0, old(w).header_size < 0x1_0000,
    ensures true,
{
    let ghost s0 = w.inner.sunk();
    let ghost hdr = w.header@;
    let r = w.write(body);
    match r {
        Ok(n) => {
            if n == body.len() {
                let f = w.do_finish();
                if f.is_ok() {
                    let ghost p = padlen((hdr.len() + body@.len()) as int);
                    assert(body@.subrange(0, n as int) =~= body@);
                    assert(w.inner.sunk() == s0 + hdr + body@ + zeros(p));
                    assert((hdr.len() + body@.len() + p) % 4 == 0);
                }
            }
        }
        Err(_) => {}
    }
}
// vacuity canaries: must FAIL
pub fn canary_c07_read<R: VReadExt>(rd: &mut Reader<R>, buf: &mut [u8])
    requires old(rd).bytes_read <= old(rd).file_size,
{
    let r = rd.read(buf);
    assert(false);
}
pub fn canary_c07_write<W: VWrite>(w: &mut Writer<W>, buf: &[u8])
    requires old(w).written <= old(w).file_size,
{
    let r = w.write(buf);
    assert(false);
}
'''),
] + TAIL

OBLIGATIONS = {
    'pad': ['C07', 'C09', 'C04'],
    'Reader::new': ['C07', 'C04'],
    'Reader::finish': ['C07', 'C04'],
    'Reader::read': ['C07', 'C04'],
    'Writer::try_write_header': ['C07', 'C09'],
    'Writer::do_finish': ['C07', 'C09'],
    'Writer::write': ['C07', 'C09'],
    'c07_writer_entry': ['C07', 'C09'],
}
OPTIONAL = {'Reader::read_to_end': ['C07', 'C04']}
CANARIES = ['canary_c07_read', 'canary_c07_write']
