"""C05 / C06 (file entries read back, the per-file assembly): the body of the fold closure of
PackageMetadata::get_file_entries builds entry idx from the idx-th items handed to it - path, owner and group (not
swapped), mode word, mtime, size, flags, link target - takes the capability and IMA signature at position idx when
those arrays exist and reach that far, and the digest from the digest text unless it is empty (a malformed digest is an
error).  Block contract (2.1a); that multizip hands the closure the idx-th item of each array is the documented
behaviour of itertools / std and is not part of the block."""
import re
from vunit import Raw, Prelude, Fn, Decl, Block
from common import *

NAME = 'c05_entries'

PARTS = [Prelude('head.rs')] + [
    Decl('src/rpm/timestamp.rs', 'struct', 'Timestamp'),
    Raw('''
pub enum Error { Other }
pub struct PathBuf { pub text: Ghost<Seq<char>> }
pub struct FileFlags { pub b: u32 }
impl FileFlags { #[verifier::external_body] pub fn from_bits_retain(bits: u32) -> (r: FileFlags) ensures r.b == bits { unimplemented!() } }
pub mod types {
    pub struct FileMode { pub bits: u16 }
}
/// R7: `mode.into()` (u16 -> FileMode: the conversion C18 is about)
#[verifier::external_body]
pub fn mode_from_u16(m: u16) -> (r: types::FileMode) ensures r.bits == m { unimplemented!() }
pub struct DigestAlgorithm { pub id: u32 }
impl Copy for DigestAlgorithm {}
impl Clone for DigestAlgorithm { fn clone(&self) -> Self { *self } }
pub struct FileDigest { pub digest: String, pub algo: DigestAlgorithm }
/// FileDigest::new: Ok with exactly this text and algorithm, or an error (length check: not under contract here)
pub uninterp spec fn digest_accepted(algo: DigestAlgorithm, hex: Seq<char>) -> bool;
impl FileDigest {
    #[verifier::external_body]
    pub fn new(algorithm: DigestAlgorithm, hex_digest: &String) -> (r: Result<FileDigest, Error>)
        ensures r is Ok <==> digest_accepted(algorithm, hex_digest@), r is Ok ==> r->Ok_0.digest@ == hex_digest@ && r->Ok_0.algo == algorithm,
    { unimplemented!() }
}
#[verifier::external_body]
pub fn string_is_empty(s: &String) -> (r: bool) ensures r == (s@.len() == 0) { s.is_empty() }
#[verifier::external_body]
pub fn string_to_owned(s: &String) -> (r: String) ensures r@ == s@ { s.to_owned() }
/// R12: `arr.get(idx).map(|x| x.to_owned())`
#[verifier::external_body]
pub fn get_owned(arr: &[String], idx: usize) -> (r: Option<String>)
    ensures match r { Some(s) => idx < arr@.len() && s@ == arr@[idx as int]@, None => idx >= arr@.len() },
{ arr.get(idx).map(|x| x.to_owned()) }
'''),
    Decl(HDR, 'struct', 'FileOwnership'),
    Decl(HDR, 'struct', 'FileEntry'),
    Raw('''
pub open spec fn opt_at(arr: Option<&[String]>, idx: int) -> Option<Seq<char>> {
    match arr { Some(a) => if 0 <= idx < a@.len() { Some(a@[idx]@) } else { None }, None => None }
}
pub open spec fn opt_text(o: Option<String>) -> Option<Seq<char>> { match o { Some(s) => Some(s@), None => None } }
'''),
    Block(PKG, 'get_file_entries', impl='impl PackageMetadata', exclusive=True, keep_start=True,
          start='                        let digest = if digest.is_empty() {', end='                    },\n                )?;\n                Ok(v)',
          subs=[(re.compile(r'\A'), '                        let mut acc = acc0;\n', 1, 'block prologue: the `mut acc` parameter of the closure'),
                ('digest.is_empty()', 'string_is_empty(digest)', 1, 'R12-String::is_empty'),
                (re.compile(r'\b(caps|ima_signatures)\.get\(idx\)\.map\(\|x\| x\.to_owned\(\)\)'), r'get_owned(\1, idx)', None, 'R12-slice::get + to_owned'),
                (re.compile(r'\b(user|group|linkto)\.to_owned\(\)'), r'string_to_owned(\1)', None, 'R12-to_owned'),
                ('mode: mode.into(),', 'mode: mode_from_u16(mode),', 1, 'R7-u16 into FileMode'),
                ('crate::Timestamp(mtime)', 'Timestamp(mtime)', 1, 'R5-path'),
                ],
          header='''/// E1 - the body of the fold closure of get_file_entries.  Free variables: acc (the entries so far), idx, the nine items,
/// caps / ima_signatures (optional arrays), algorithm.
pub fn e1_file_entry(acc0: Vec<FileEntry>, idx: usize, path: PathBuf, user: &String, group: &String, mode: u16, digest: &String, mtime: u32,
                     size: u64, flags: u32, linkto: &String, caps: Option<&[String]>, ima_signatures: Option<&[String]>, algorithm: DigestAlgorithm)
    -> (r: Result<Vec<FileEntry>, Error>)
    ensures
        // a malformed (non-empty) digest text is the only error
        r is Err <==> digest@.len() > 0 && !digest_accepted(algorithm, digest@),
        r is Ok ==> {
            let v = r->Ok_0@;
            let e = v[acc0@.len() as int];
            &&& v.len() == acc0@.len() + 1 && v.subrange(0, acc0@.len() as int) == acc0@
            &&& e.path == path
            &&& e.ownership.user@ == user@ && e.ownership.group@ == group@
            &&& e.mode.bits == mode && e.modified_at.0 == mtime && e.size == size as usize && e.flags.b == flags && e.linkto@ == linkto@
            &&& (if digest@.len() == 0 { e.digest is None } else { e.digest is Some && e.digest->0.digest@ == digest@ && e.digest->0.algo == algorithm })
            &&& opt_text(e.caps) == opt_at(caps, idx as int)
            &&& opt_text(e.ima_signature) == opt_at(ima_signatures, idx as int)
        },''',
          tail=''),
    Raw('''
// vacuity canary: must FAIL
pub fn canary_e1(acc0: Vec<FileEntry>, path: PathBuf, s: &String, a: DigestAlgorithm)
{
    let r = e1_file_entry(acc0, 0, path, s, s, 0, s, 0, 0, 0, s, None, None, a);
    assert(r is Ok);
}
'''),
] + TAIL

OBLIGATIONS = {'e1_file_entry': ['C05', 'C06']}
CANARIES = ['canary_e1']
