"""C01 / C14 read side: parsing is a function of the stream content, consumes exactly the
serialised length, and the parsed value re-serialises to the consumed bytes up to the reserved
bytes of the intros and the signature padding.  Composition over the Kani-proved leaves."""
import re
from vunit import Raw, Prelude, Fn, Decl
from common import *

NAME = 'c01_parse'

READ1 = ('&mut impl io::BufRead', '&mut impl VRead', 1, R3)
R6 = 'R6-debug_assert->proof obligation'
R8 = 'R8-decode-loop->frame contract (Kani K-DECODE-FRAME)'

PARTS = HEAD + consts('LEAD_SIZE', 'INDEX_HEADER_SIZE', 'INDEX_ENTRY_SIZE', 'HEADER_MAGIC', 'RPM_MAGIC') + io_head() + header_types() + [
    Prelude('hdrspec.rs'),
    Prelude('read.rs'),
    Prelude('stdspecs.rs'),
    Prelude('stdspecs2.rs'),
    Prelude('alloc.rs'),
    Prelude('decode.rs'),
    Prelude('leaves.rs'),
    Decl(LEAD, 'struct', 'Lead'),
    tag_instances(),
    Decl(PKG, 'struct', 'PackageMetadata'),
    Decl(PKG, 'struct', 'Package'),
    Raw('''
impl IndexData {
    /// V:c14_writers:IndexData::num_items (proved there on the verbatim body); not called by the parser on the pinned
    /// tree - declared so that an edit that starts using it is judged instead of rejected (seed C01-c)
    #[verifier::external_body]
    pub fn num_items(&self) -> (r: u32) ensures r == data_count(*self) { unimplemented!() }
}
pub open spec fn ser_lead(l: Lead) -> Seq<u8> {
    l.magic@ + seq![l.major] + seq![l.minor] + be16(l.package_type) + be16(l.arch) + l.name@
      + be16(l.os) + be16(l.signature_type) + l.reserved@
}
impl Lead {
    /// K:k_lead_fields (all 96-byte inputs; src/rpm/headers/lead.rs Lead::parse)
    #[verifier::external_body]
    pub fn parse(input: &[u8]) -> (r: Result<Lead, Error>)
        requires input@.len() == 96,
        ensures
            r is Ok <==> (input@[0] == 0xed && input@[1] == 0xab && input@[2] == 0xee && input@[3] == 0xdb),
            r is Ok ==> {
                let l = r->Ok_0;
                &&& l.magic@ == RPM_MAGIC@
                &&& l.major == input@[4] && l.minor == input@[5]
                &&& l.package_type == dec16(input@.subrange(6, 8))
                &&& l.arch == dec16(input@.subrange(8, 10))
                &&& l.name@ == input@.subrange(10, 76)
                &&& l.os == dec16(input@.subrange(76, 78))
                &&& l.signature_type == dec16(input@.subrange(78, 80))
                &&& l.reserved@ == input@.subrange(80, 96)
            },
    {
        unimplemented!()
    }
}
pub proof fn lemma_ser_entries_frame<T: Tag>(a: Seq<IndexEntry<T>>, b: Seq<IndexEntry<T>>)
    requires a.len() == b.len(),
        forall|i: int| 0 <= i < a.len() ==> same_index(#[trigger] b[i], a[i]),
    ensures ser_entries(a) == ser_entries(b),
    decreases a.len(),
{
    if a.len() > 0 {
        lemma_ser_entries_frame(a.drop_last(), b.drop_last());
    }
}
pub proof fn lemma_entry_bytes<T: Tag>(input: Seq<u8>, e: IndexEntry<T>)
    requires input.len() >= 16,
        e.tag == dec32(input.subrange(0, 4)),
        ty_code(e.data) == dec32(input.subrange(4, 8)),
        e.offset == bits_i32(dec32(input.subrange(8, 12))),
        e.num_items == dec32(input.subrange(12, 16)),
    ensures ser_entry_of(e) == input.subrange(0, 16),
{
    lemma_be32_dec32(input.subrange(0, 4));
    lemma_be32_dec32(input.subrange(4, 8));
    lemma_be32_dec32(input.subrange(8, 12));
    lemma_be32_dec32(input.subrange(12, 16));
    assert(ser_entry_of(e) =~= input.subrange(0, 16));
}
pub proof fn lemma_intro_bytes(input: Seq<u8>, h: IndexHeader)
    requires input.len() == 16,
        input[0] == 0x8e && input[1] == 0xad && input[2] == 0xe8 && input[3] == 1,
        h.magic@ == HEADER_MAGIC@, h.version == 1,
        h.num_entries == dec32(input.subrange(8, 12)),
        h.data_section_size == dec32(input.subrange(12, 16)),
    ensures ser_ih(h) == input.subrange(0, 4) + zeros(4) + input.subrange(8, 16),
{
    lemma_be32_dec32(input.subrange(8, 12));
    lemma_be32_dec32(input.subrange(12, 16));
    assert(HEADER_MAGIC@ =~= seq![0x8eu8, 0xadu8, 0xe8u8]);
    assert(ser_ih(h) =~= input.subrange(0, 4) + zeros(4) + input.subrange(8, 16));
}
pub proof fn lemma_lead_bytes(input: Seq<u8>, l: Lead)
    requires input.len() == 96,
        input[0] == 0xed && input[1] == 0xab && input[2] == 0xee && input[3] == 0xdb,
        l.magic@ == RPM_MAGIC@, l.major == input[4], l.minor == input[5],
        l.package_type == dec16(input.subrange(6, 8)), l.arch == dec16(input.subrange(8, 10)),
        l.name@ == input.subrange(10, 76), l.os == dec16(input.subrange(76, 78)),
        l.signature_type == dec16(input.subrange(78, 80)), l.reserved@ == input.subrange(80, 96),
    ensures ser_lead(l) == input,
{
    lemma_be16_dec16(input.subrange(6, 8));
    lemma_be16_dec16(input.subrange(8, 10));
    lemma_be16_dec16(input.subrange(76, 78));
    lemma_be16_dec16(input.subrange(78, 80));
    assert(RPM_MAGIC@ =~= seq![0xedu8, 0xabu8, 0xeeu8, 0xdbu8]);
    assert(ser_lead(l) =~= input);
}
/// what parsing one header from a stream with content `r0` must deliver
pub open spec fn header_parsed<T: Tag>(r0: Seq<u8>, r1: Seq<u8>, h: Header<T>) -> bool {
    let len = hdr_len(h);
    &&& wf(h)
    &&& r0.len() >= len
    &&& r1 == r0.subrange(len, r0.len() as int)
    &&& ser_header(h) == r0.subrange(0, 4) + zeros(4) + r0.subrange(8, len)
}
impl<T: Tag> Header<T> {
'''),
    Fn(HDR, 'parse', impl='impl<T> Header<T> where T: Tag,',
       subs=[READ1, ret(),
             (re.compile(r'input\.by_ref\(\)\.take\((\w+)\)\.read_to_end\(&mut buf\)\?;'), r'input.take_read_to_end(\1, &mut buf)?;', None, 'R16-Take::read_to_end'),
             ] + IOERR_RULES + ALLOC_RULES + [
             ('&buf[..]', 'buf.as_slice()', None, 'R17-full-range-slice'),
             ('Vec::new()', 'Vec::<u8>::new()', None, 'R9-type-annotation')],
       spec='''    ensures
        old(input).remaining().len() < 16 ==> r is Err,
        r is Ok ==> header_parsed(old(input).remaining(), final(input).remaining(), r->Ok_0),''',
       prologue='let ghost r0 = old(input).remaining();',
       before=[('Self::parse_header(index_header', '''proof {
            lemma_intro_bytes(r0.subrange(0, 16), index_header);
            assert(buf@ =~= r0.subrange(16, 16 + buf@.len() as int));
        }
        let ghost ih = index_header;
        let res = ''')],
       after=[('IndexHeader::parse(&buf)?;', '''
        proof {
            assert((index_header.num_entries as int) * (INDEX_ENTRY_SIZE as int) == 16 * (index_header.num_entries as int)) by (nonlinear_arith)
                requires INDEX_ENTRY_SIZE == 16;
        }'''),
              ('Self::parse_header(index_header, &buf[..])', ''';
        proof {
            if res is Ok {
                let h = res->Ok_0;
                let len = hdr_len(h);
                lemma_ser_header_len(h);
                assert(ser_header(h) =~= r0.subrange(0, 4) + zeros(4) + r0.subrange(8, len));
                assert(input.remaining() =~= r0.subrange(len, r0.len() as int));
            }
        }
        res''')]),
    Fn(HDR, 'parse_header', impl='impl<T> Header<T> where T: Tag,',
       subs=[ret(),
             ('for _ in 0..index_header.num_entries', 'for _ in vi: 0..index_header.num_entries', 1, 'R15-for-loop-ghost-iterator-name'),
             ('debug_assert_eq!(INDEX_ENTRY_SIZE as usize, buf_len - bytes.len());', 'assert(INDEX_ENTRY_SIZE as usize == buf_len - bytes.len());', 1, R6),
             ('debug_assert_eq!(bytes.len(), index_header.data_section_size as usize);', 'assert(bytes.len() == index_header.data_section_size as usize);', 1, R6),
             ('Vec::from(bytes)', 'slice_to_vec(bytes)', 1, 'R9-Vec::from'),
             ('&bytes[entry.offset as usize..]', 'slice_from(bytes, entry.offset as usize)', None, 'R17-slice-from'),
             ('&rest[1..]', 'slice_from(rest, 1)', None, 'R17-slice-from'),
             (re.compile(r'parse_entry_data_number\(remaining, entry\.num_items, ints, be_(u16|u32|u64)\)'), r'parse_entry_data_number_\1(remaining, entry.num_items, ints)', 3, 'R18-monomorphise-parser-argument'),
             ('complete::take_till(|item| item == 0)(remaining)', 'take_till_nul(remaining)', None, 'R19-nom-take_till'),
             ('String::from_utf8_lossy(raw_string).as_ref()', 'lossy(raw_string).as_str()', None, 'R20-from_utf8_lossy'),
             ('String::from_utf8_lossy(raw_string).to_string()', 'lossy(raw_string)', None, 'R20-from_utf8_lossy'),
             (re.compile(r'Error::Nom\(\s*"[^"]*"\.to_string\(\),?\s*\)'), 'Error::Nom', None, 'R4-error-message'),
             (re.compile(r'for _ in 0\.\.entry\.num_items'), 'for _ in vk: 0..entry.num_items', None, 'R15-for-loop-ghost-iterator-name'),
             ],
       index_loops={1: ('vj', '''            invariant
                entries@.len() == entries0.len(),
                0 <= vj <= entries@.len(),
                bytes@ == sb,
                forall|j: int| 0 <= j < entries0.len() ==> same_index(#[trigger] entries@[j], entries0[j]),
                forall|j: int| vj <= j < entries0.len() ==> data_empty((#[trigger] entries@[j]).data),
                forall|j: int| 0 <= j < vj ==> decoded(#[trigger] entries@[j], sb),
            decreases entries@.len() - vj,
''', '''    proof {
                assert(decoded(entries@[vj as int], sb));
            }
        ''')},
       spec='''    requires
        bytes@.len() == 16 * (index_header.num_entries as int) + (index_header.data_section_size as int),
    ensures
        r is Ok ==> {
            let h = r->Ok_0;
            let n = index_header.num_entries as int;
            &&& h.index_header == index_header
            &&& h.index_entries@.len() == n
            &&& h.store@ == bytes@.subrange(16 * n, bytes@.len() as int)
            &&& ser_entries(h.index_entries@) == bytes@.subrange(0, 16 * n)
            &&& forall|j: int| 0 <= j < n ==> decoded(#[trigger] h.index_entries@[j], h.store@)
        },''',
       loops={2: '''                        invariant
                            strings@.len() == vk.index@,
                            0 <= vk.index@ <= entry.num_items,
                            strs_ok(t0, vk.index@),
                            remaining@ == after_strs(t0, vk.index@),
                            forall|k: int| 0 <= k < vk.index@ ==> (#[trigger] strings@[k])@ == lossy_spec(str_at(t0, k)),
''', 3: '''                        invariant
                            strings@.len() == vk.index@,
                            0 <= vk.index@ <= entry.num_items,
                            strs_ok(t0, vk.index@),
                            remaining@ == after_strs(t0, vk.index@),
                            forall|k: int| 0 <= k < vk.index@ ==> (#[trigger] strings@[k])@ == lossy_spec(str_at(t0, k)),
''', 0: '''            invariant
                entries@.len() == vi.index@,
                forall|j: int| 0 <= j < vi.index@ ==> data_empty((#[trigger] entries@[j]).data),
                0 <= vi.index@ <= index_header.num_entries,
                bytes0.len() == 16 * (index_header.num_entries as int) + (index_header.data_section_size as int),
                bytes@ == bytes0.subrange(16 * vi.index@, bytes0.len() as int),
                ser_entries(entries@) == bytes0.subrange(0, 16 * vi.index@),
                buf_len == bytes@.len(),
'''},
       before=[('let mut entries', 'let ghost bytes0 = bytes@;\n        '),
               ('entries.push(entry);', '''proof {
                lemma_entry_bytes(bytes@, entry);
                let i = vi.index@;
                assert(entries@.push(entry).drop_last() =~= entries@);
                assert(bytes0.subrange(0, 16 * (i + 1)) =~= bytes0.subrange(0, 16 * i) + bytes@.subrange(0, 16));
                assert(rest@ =~= bytes0.subrange(16 * (i + 1), bytes0.len() as int));
            }
            '''),
               ('let store', '''proof {
            assert(ser_entries(Seq::<IndexEntry<T>>::empty()) =~= Seq::<u8>::empty());
        }
        let ghost entries0 = entries@;
        let ghost sb = bytes@;
        '''),
               ('match &mut entry.data', 'let ghost t0 = remaining@;\n            '),
               ('strings.push(string);', '''proof {
                            lemma_strs_step(t0, vk.index@);
                            lemma_first_nul(after_strs(t0, vk.index@));
                            assert(remaining@ =~= after_cstr(after_strs(t0, vk.index@)));
                        }
                        ''', 2),
               ('Ok(Header {', 'proof { lemma_ser_entries_frame(entries0, entries@); }\n        ')]),
    Raw('}\nimpl Header<IndexSignatureTag> {\n'),
    Fn(HDR, 'padding_required', impl='impl Header<IndexSignatureTag>', subs=[ret()],
       spec='    ensures r as int == sigpad(self.index_header.data_section_size as int), 0 <= r < 8,'),
    Fn(HDR, 'parse_signature', impl='impl Header<IndexSignatureTag>',
       subs=[READ1, ret()] + IOERR_RULES + MINMAX_RULES + ALLOC_RULES,
       spec='''    ensures
        old(input).remaining().len() < 16 ==> r is Err,
        r is Ok ==> {
            let h = r->Ok_0;
            let r0 = old(input).remaining();
            let pad = sigpad(h.index_header.data_section_size as int);
            &&& header_parsed(r0, r0.subrange(hdr_len(h), r0.len() as int), h)
            &&& r0.len() >= hdr_len(h) + pad
            &&& final(input).remaining() == r0.subrange(hdr_len(h) + pad, r0.len() as int)
        },''',
       before=[('Ok(result)', '''proof {
            let r0 = old(input).remaining();
            let l = hdr_len(result);
            if r0.len() >= l + padding as int {
                assert(r0.subrange(l, r0.len() as int).subrange(padding as int, r0.len() - l) =~= r0.subrange(l + padding as int, r0.len() as int));
            }
        }
        ''')]),
    Raw('}\nimpl PackageMetadata {\n'),
    Fn(PKG, 'parse', impl='impl PackageMetadata',
       subs=[READ1, ret()],
       spec='''    ensures
        old(input).remaining().len() < 96 + 16 + 16 ==> r is Err,
        r is Ok ==> meta_parsed(old(input).remaining(), final(input).remaining(), r->Ok_0),''',
       before=[('let signature_header', '''proof { lemma_lead_bytes(lead_buffer@, lead); }
        let ghost r1 = input.remaining();
        '''),
               ('let header =', 'let ghost r2 = input.remaining();\n        '),
               ('Ok(PackageMetadata', '''proof {
            let r0 = old(input).remaining();
            let ls = hdr_len(signature_header);
            let pad = sigpad(signature_header.index_header.data_section_size as int);
            let lh = hdr_len(header);
            assert(r1 =~= r0.subrange(96, r0.len() as int));
            assert(r2 =~= r0.subrange(96 + ls + pad, r0.len() as int));
            assert(input.remaining() =~= r0.subrange(96 + ls + pad + lh, r0.len() as int));
            assert(r0.subrange(0, 96) =~= lead_buffer@);
            assert(r1.subrange(0, 4) + zeros(4) + r1.subrange(8, ls) =~= r0.subrange(96, 100) + zeros(4) + r0.subrange(104, 96 + ls));
            assert(r2.subrange(0, 4) + zeros(4) + r2.subrange(8, lh) =~= r0.subrange(96 + ls + pad, 100 + ls + pad) + zeros(4) + r0.subrange(104 + ls + pad, 96 + ls + pad + lh));
        }
        ''')]),
    Raw('}\nimpl Package {\n'),
    Fn(PKG, 'parse', impl='impl Package',
       subs=[READ1, ret(), ('Vec::new()', 'Vec::<u8>::new()', 1, 'R9-type-annotation')],
       spec='''    ensures
        old(input).remaining().len() < 96 + 16 + 16 ==> r is Err,
        r is Ok ==> {
            let k = r->Ok_0;
            let r0 = old(input).remaining();
            let off = meta_len(k.metadata);
            &&& meta_parsed(r0, r0.subrange(off, r0.len() as int), k.metadata)
            &&& k.content@ == r0.subrange(off, r0.len() as int)
            &&& final(input).remaining() == Seq::<u8>::empty()
        },''',
       after=[('input.read_to_end(&mut content)?;', '''
        proof {
            let r0 = old(input).remaining();
            let off = meta_len(metadata);
            assert(content@ =~= r0.subrange(off, r0.len() as int));
        }''')]),
    Raw('''}
pub open spec fn meta_len(m: PackageMetadata) -> int {
    96 + hdr_len(m.signature) + sigpad(m.signature.index_header.data_section_size as int) + hdr_len(m.header)
}
/// what parsing package metadata from a stream with content `r0` must deliver (C01 statement):
/// the consumed bytes, with the reserved bytes of both intros and the signature padding zeroed,
/// are lead ++ ser(signature) ++ zeros(pad) ++ ser(header).
pub open spec fn meta_parsed(r0: Seq<u8>, r1: Seq<u8>, m: PackageMetadata) -> bool {
    let ls = hdr_len(m.signature);
    let pad = sigpad(m.signature.index_header.data_section_size as int);
    let lh = hdr_len(m.header);
    let h0 = 96 + ls + pad;
    &&& wf(m.signature) && wf(m.header)
    &&& r0.len() >= h0 + lh
    &&& r1 == r0.subrange(h0 + lh, r0.len() as int)
    &&& ser_lead(m.lead) == r0.subrange(0, 96)
    &&& ser_header(m.signature) == r0.subrange(96, 100) + zeros(4) + r0.subrange(104, 96 + ls)
    &&& ser_header(m.header) == r0.subrange(h0, h0 + 4) + zeros(4) + r0.subrange(h0 + 8, h0 + lh)
}
// ---- C01 closed: parse, then write, reproduces the consumed bytes up to reserved bytes / padding ----
/// the canonical form of the metadata bytes: reserved bytes of both intros and the signature padding zeroed
pub open spec fn canon_meta(r0: Seq<u8>, m: PackageMetadata) -> Seq<u8> {
    let ls = hdr_len(m.signature);
    let pad = sigpad(m.signature.index_header.data_section_size as int);
    let lh = hdr_len(m.header);
    let h0 = 96 + ls + pad;
    r0.subrange(0, 100) + zeros(4) + r0.subrange(104, 96 + ls) + zeros(pad)
        + r0.subrange(h0, h0 + 4) + zeros(4) + r0.subrange(h0 + 8, h0 + lh)
}
pub open spec fn ser_meta(m: PackageMetadata) -> Seq<u8> {
    ser_lead(m.lead) + ser_header(m.signature) + zeros(sigpad(m.signature.index_header.data_section_size as int)) + ser_header(m.header)
}
impl PackageMetadata {
    /// proved in unit c14_writers (V:PackageMetadata::write + lemma_header_onto / lemma_*_onto_grow),
    /// stated here in the plain (non-accumulator) form
    #[verifier::external_body]
    pub fn write(&self, out: &mut Vec<u8>) -> (r: Result<(), Error>)
        ensures r is Ok, final(out)@ == old(out)@ + ser_meta(*self),
    { unimplemented!() }
}
/// C01 for package metadata: every accepted byte string is reproduced by write, the only
/// differences being the zeroed reserved bytes and signature padding; and the written bytes have
/// the same length as what was consumed (so segment boundaries are preserved).
pub fn c01_roundtrip_metadata(input: &mut impl VRead) -> (r: Result<Vec<u8>, Error>)
    ensures r is Ok ==> exists|m: PackageMetadata| {
        &&& meta_parsed(old(input).remaining(), final(input).remaining(), m)
        &&& #[trigger] canon_meta(old(input).remaining(), m) == r->Ok_0@
        &&& r->Ok_0@.len() == meta_len(m)
    },
{
    let ghost r0 = input.remaining();
    let m = PackageMetadata::parse(input)?;
    let mut out: Vec<u8> = Vec::new();
    m.write(&mut out)?;
    proof {
        let ls = hdr_len(m.signature);
        let pad = sigpad(m.signature.index_header.data_section_size as int);
        let lh = hdr_len(m.header);
        let h0 = 96 + ls + pad;
        lemma_ser_header_len(m.signature);
        lemma_ser_header_len(m.header);
        assert(r0.subrange(0, 96) + (r0.subrange(96, 100) + zeros(4) + r0.subrange(104, 96 + ls)) =~= r0.subrange(0, 100) + zeros(4) + r0.subrange(104, 96 + ls));
        assert(out@ =~= canon_meta(r0, m));
        assert(zeros(pad).len() == pad);
    }
    Ok(out)
}
// vacuity canaries: must FAIL
pub fn canary_c01_read(input: &mut impl VRead)
{
    let mut b = [0u8; 4];
    let r = input.read_exact(&mut b);
    assert(r is Err);
}
pub fn canary_c01_parse_header(ih: IndexHeader, bytes: &[u8])
    requires bytes@.len() == 16 * (ih.num_entries as int) + (ih.data_section_size as int),
{
    let r = Header::<IndexTag>::parse_header(ih, bytes);
    assert(r is Err);
}
'''),
] + TAIL

OBLIGATIONS = {
    'Header::parse': ['C01', 'C14', 'C04', 'C16', 'C03', 'C02'],   # C03/C02: the digests / signatures are computed over ser(parsed header)
    'Header::parse_header': ['C01', 'C14', 'C04', 'C05', 'C16', 'C03', 'C02'],
    'Header::padding_required': ['C01'],
    'Header::parse_signature': ['C01', 'C14', 'C04', 'C16', 'C03', 'C02'],
    'PackageMetadata::parse': ['C01', 'C14', 'C04', 'C16', 'C03', 'C02'],
    'Package::parse': ['C01', 'C14', 'C04', 'C03', 'C02'],
    'c01_roundtrip_metadata': ['C01'],
    'lemma_ser_entries_frame': ['C01'],
    'lemma_entry_bytes': ['C01'],
    'lemma_intro_bytes': ['C01'],
    'lemma_lead_bytes': ['C01'],
    'lemma_be32_dec32': ['C01', 'C05'],
    'lemma_be16_dec16': ['C01', 'C05'],
    'lemma_strs_step': ['C05', 'C01'],
    'lemma_first_nul': ['C05', 'C01'],
    'lemma_ser_entries_len': ['C01'],
    'lemma_ser_header_len': ['C01'],
}
CANARIES = ['canary_c01_read', 'canary_c01_parse_header']
