"""Part lists shared by several units."""
import re
from vunit import Raw, Prelude, Fn, Decl

HDR = 'src/rpm/headers/header.rs'
CONST = 'src/constants.rs'
PKG = 'src/rpm/package.rs'
LEAD = 'src/rpm/headers/lead.rs'
TYPES = 'src/rpm/headers/types.rs'

R5 = 'R5-tag-generic'


def consts(*names):
    return [Decl(CONST, 'const', n) for n in names]


def header_types():
    """struct Header / IndexHeader / IndexEntry / enum IndexData, verbatim."""
    return [
        Decl(HDR, 'struct', 'IndexHeader'),
        Decl(HDR, 'enum', 'IndexData'),
        Decl(HDR, 'struct', 'IndexEntry',
             subs=[('T: num::FromPrimitive', 'T: Tag', 1, R5)]),
        Decl(HDR, 'struct', 'Header'),
    ]


def ret(name='r'):
    """Substitution that names the return value of the extracted fn: `-> TYPE {` becomes
    `-> (r: TYPE) {`; type-agnostic, so a change of the return type does not lose the anchor."""
    return (re.compile(r'\)\s*->\s*([^{;]+?)\s*(?=/\*@SPEC@\*/)'), r') -> (%s: \1) ' % name, 1, 'name-return-value')


HEAD = [Prelude('head.rs'), Prelude('tag.rs'), Prelude('serspec.rs')]
TAIL = [Raw('\n} // verus!\n')]

R2 = 'R2-io-Write->VWrite'
R3 = 'R3-io-Read->VRead'
R14 = 'R14-to_be_bytes'

TO_BE = ('.to_be_bytes()', '.to_be_bytes_v()', None, R14)


def io_head():
    return [Decl(CONST, 'enum', 'DigestAlgorithm'), Prelude('io.rs')]


WRITE_POST = '''    ensures match r {
        Ok(()) => final(out).sunk() == %(onto)s,
        Err(_) => pre(old(out).sunk(), final(out).sunk()) && pre(final(out).sunk(), %(onto)s),
    },'''


def tag_instances():
    return Raw('pub struct IndexSignatureTag { pub v: u32 }\npub struct IndexTag { pub v: u32 }\n'
               'impl Copy for IndexSignatureTag {} impl Clone for IndexSignatureTag { fn clone(&self) -> Self { *self } }\n'
               'impl Copy for IndexTag {} impl Clone for IndexTag { fn clone(&self) -> Self { *self } }\n'
               'impl Tag for IndexSignatureTag { open spec fn spec_to_u32(&self) -> u32 { self.v } fn to_u32(&self) -> u32 { self.v } }\n'
               'impl Tag for IndexTag { open spec fn spec_to_u32(&self) -> u32 { self.v } fn to_u32(&self) -> u32 { self.v } }\n',
               'R5 tag instances')
