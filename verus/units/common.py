"""Part lists shared by several units."""
import re
from vunit import Raw, Prelude, Fn, Decl

HDR = 'src/rpm/headers/header.rs'
CONST = 'src/constants.rs'
PKG = 'src/rpm/package.rs'
LEAD = 'src/rpm/headers/lead.rs'
TYPES = 'src/rpm/headers/types.rs'

R5 = 'R5-tag-generic'


def consts(*names):
    return [Decl(CONST, 'const', n) for n in names]


def header_types():
    """struct Header / IndexHeader / IndexEntry / enum IndexData, verbatim."""
    return [
        Decl(HDR, 'struct', 'IndexHeader'),
        Decl(HDR, 'enum', 'IndexData'),
        Decl(HDR, 'struct', 'IndexEntry',
             subs=[('T: num::FromPrimitive', 'T: Tag', 1, R5)]),
        Decl(HDR, 'struct', 'Header'),
    ]


def ret(name='r'):
    """Substitution that names the return value of the extracted fn: `-> TYPE {` becomes
    `-> (r: TYPE) {`; type-agnostic, so a change of the return type does not lose the anchor."""
    return (re.compile(r'\)\s*->\s*([^{;]+?)\s*(?=\bwhere\b|/\*@SPEC@\*/)'), r') -> (%s: \1) ' % name, 1, 'name-return-value')


HEAD = [Prelude('head.rs'), Prelude('tag.rs'), Prelude('serspec.rs')]
TAIL = [Raw('\n} // verus!\n')]

R2 = 'R2-io-Write->VWrite'
R3 = 'R3-io-Read->VRead'
R14 = 'R14-to_be_bytes'

TO_BE = ('.to_be_bytes()', '.to_be_bytes_v()', None, R14)


def io_head():
    return [Decl(CONST, 'enum', 'DigestAlgorithm'), Prelude('io.rs')]


WRITE_POST = '''    ensures match r {
        Ok(()) => final(out).sunk() == %(onto)s,
        Err(_) => pre(old(out).sunk(), final(out).sunk()) && pre(final(out).sunk(), %(onto)s),
    },
    old(out).infallible() ==> r is Ok,
    final(out).infallible() == old(out).infallible(),'''


def tag_instances():
    return Raw('pub struct IndexSignatureTag { pub v: u32 }\npub struct IndexTag { pub v: u32 }\n'
               'impl Copy for IndexSignatureTag {} impl Clone for IndexSignatureTag { fn clone(&self) -> Self { *self } }\n'
               'impl Copy for IndexTag {} impl Clone for IndexTag { fn clone(&self) -> Self { *self } }\n'
               'impl Tag for IndexSignatureTag { open spec fn spec_to_u32(&self) -> u32 { self.v } fn to_u32(&self) -> u32 { self.v } }\n'
               'impl Tag for IndexTag { open spec fn spec_to_u32(&self) -> u32 { self.v } fn to_u32(&self) -> u32 { self.v } }\n',
               'R5 tag instances')


def header_write_contract():
    """`Header::write` as seen by callers in other units: the plain-form contract that follows
    from V:c14_writers:Header::write + lemma_header_onto (both proved in unit c14_writers)."""
    return Raw('''
impl<T: Tag> Header<T> {
    /// proved in unit c14_writers (V:Header::write, lemma_header_onto)
    #[verifier::external_body]
    pub fn write(&self, out: &mut impl VWrite) -> (r: Result<(), Error>)
        ensures
            r is Ok ==> final(out).sunk() == old(out).sunk() + ser_header(*self),
            old(out).infallible() ==> r is Ok,
            final(out).infallible() == old(out).infallible(),
    { unimplemented!() }
}
''', 'Header::write contract (proved in c14_writers)')


DIGEST_SPEC = '''
// ---- C03, written from the statement ----------------------------------------------------------
/// "recorded": the standard tag is present with its standard data type.
pub open spec fn md5_recorded(p: Package) -> Option<Seq<u8>> { get_bin(p.metadata.signature, 1004) }
pub open spec fn sha1_recorded(p: Package) -> Option<Seq<char>> { get_str(p.metadata.signature, 269) }
pub open spec fn sha256_recorded(p: Package) -> Option<Seq<char>> { get_str(p.metadata.signature, 273) }
pub open spec fn payload_recorded(p: Package) -> bool {
    get_strarr(p.metadata.header, 5092) is Some && get_u32(p.metadata.header, 5093) is Some
}
pub open spec fn payload_algo(p: Package) -> u32 { get_u32(p.metadata.header, 5093)->0 }
pub open spec fn payload_vals(p: Package) -> Seq<String> { get_strarr(p.metadata.header, 5092)->0 }
pub open spec fn digests_ok(p: Package) -> bool {
    let h = ser_header(p.metadata.header);
    let c = p.content@;
    &&& (md5_recorded(p) is Some ==> md5_recorded(p)->0 == md5_spec(h + c))
    &&& (sha1_recorded(p) is Some ==> sha1_recorded(p)->0 == hex_spec(sha1_spec(h)))
    &&& (sha256_recorded(p) is Some ==> sha256_recorded(p)->0 == hex_spec(sha256_spec(h)))
    &&& (payload_recorded(p) ==> {
            &&& payload_algo(p) == 8
            &&& payload_vals(p).len() > 0
            &&& payload_vals(p)[0]@ == hex_spec(sha256_spec(c))
        })
}
'''


VERIFY_DIGESTS_CONTRACT = Raw('''
impl Package {
    /// proved in unit c03_digests (V:Package::verify_digests)
    #[verifier::external_body]
    pub fn verify_digests(&self) -> (r: Result<(), Error>)
        ensures r is Ok <==> digests_ok(*self),
    { unimplemented!() }
}
''', 'verify_digests contract (proved in c03_digests)')


def mut_self():
    """R22: Verus does not support `mut self` receivers: `fn f(mut self, ..) { BODY }` becomes
    `fn f(self, ..) { let mut this = self; BODY[self := this] }` (pure renaming)."""
    r = 'R22-mut-self-receiver'
    return [('(mut self', '(self', 1, r),
            (re.compile(r'(/\*@SPEC@\*/\{)'), r'\1 let ghost self0 = self; let mut this = self;', 1, r),
            (re.compile(r'\bself\.'), 'this.', None, r),
            (re.compile(r'\n(\s+)self\n'), r'\n\1this\n', None, r)]


# R4 (general): construction of io errors has no effect on control flow
IOERR_RULES = [
    (re.compile(r'io::Error::(?:from|new)\((?:[^()]|\([^()]*\))*\)\.into\(\)'), 'Error::Io', None, 'R4-io-error-construction'),
    (re.compile(r'io::Error::(?:from|new)\((?:[^()]|\([^()]*\))*\)'), 'Error::Io', None, 'R4-io-error-construction'),
]
# R12 (general): Ord::min / Ord::max on machine integers (no vstd specification)
MINMAX_RULES = [
    (re.compile(r'\b([A-Za-z_][A-Za-z0-9_.]*)\.min\(((?:[^()]|\([^()]*\))*)\)'), r'vmin(\1, \2)', None, 'R12-Ord::min'),
    (re.compile(r'\b([A-Za-z_][A-Za-z0-9_.]*)\.max\(((?:[^()]|\([^()]*\))*)\)'), r'vmax(\1, \2)', None, 'R12-Ord::max'),
    (re.compile(r'\b(?:std::|core::)?cmp::min\('), 'vmin(', None, 'R12-cmp::min'),
    (re.compile(r'\b(?:std::|core::)?cmp::max\('), 'vmax(', None, 'R12-cmp::max'),
]


def mut_ref(m, name):
    """`&mut name` for a local, `&mut *name` when `name` is itself a `&mut` parameter of the item."""
    if re.search(r'\b%s\s*:\s*&mut\b' % re.escape(name), m.string):
        return '&mut *' + name
    return '&mut ' + name


# R-ALLOC: explicit allocation requests in reader code carry a constant bound (prelude/alloc.rs)
ALLOC_RULES = [
    (re.compile(r'vec!\[([^;\]]+);\s*([^\]]+)\]'), r'vec_filled(\1, \2)', None, 'R-ALLOC vec![x; n]'),
    (re.compile(r'\b([A-Za-z_][A-Za-z0-9_.]*)\.resize\('), lambda m: 'vec_resize_bounded(%s, ' % mut_ref(m, m.group(1)), None, 'R-ALLOC Vec::resize'),
    (re.compile(r'Vec::(?:<([^>]*)>::)?with_capacity\('), lambda m: ('vec_with_capacity_bounded::<%s>(' % m.group(1)) if m.group(1) else 'vec_with_capacity_bounded(', None, 'R-ALLOC Vec::with_capacity'),
]


def tag_enums():
    """R5 (reduced): the two tag enums are extracted verbatim from src/constants.rs (explicit
    discriminants included); only the `Tag` impls are restated against the prelude trait - their
    body is the crate's own `*self as u32`."""
    return consts('HEADER_IMAGE', 'HEADER_SIGNATURES', 'HEADER_IMMUTABLE', 'HEADER_REGIONS', 'HEADER_I18NTABLE',
                  'HEADER_SIGBASE', 'HEADER_SIGTOP', 'HEADER_TAGBASE') + [
        Raw('#[derive(Clone, Copy)]\n#[repr(u32)]\n#[allow(non_camel_case_types)]\n'),
        Decl(CONST, 'enum', 'IndexTag'),
        Raw('#[derive(Clone, Copy)]\n#[repr(u32)]\n#[allow(non_camel_case_types)]\n'),
        Decl(CONST, 'enum', 'IndexSignatureTag'),
        Raw('''
impl Tag for IndexTag {
    open spec fn spec_to_u32(&self) -> u32 { *self as u32 }
    fn to_u32(&self) -> u32 { *self as u32 }
}
impl Tag for IndexSignatureTag {
    open spec fn spec_to_u32(&self) -> u32 { *self as u32 }
    fn to_u32(&self) -> u32 { *self as u32 }
}
''', 'Tag impls (body as in src/constants.rs)'),
    ]
