"""Part lists shared by several units."""
import re
from vunit import Raw, Prelude, Fn, Decl

HDR = 'src/rpm/headers/header.rs'
CONST = 'src/constants.rs'
PKG = 'src/rpm/package.rs'
LEAD = 'src/rpm/headers/lead.rs'
TYPES = 'src/rpm/headers/types.rs'

R5 = 'R5-tag-generic'


def consts(*names):
    return [Decl(CONST, 'const', n) for n in names]


def header_types():
    """struct Header / IndexHeader / IndexEntry / enum IndexData, verbatim."""
    return [
        Decl(HDR, 'struct', 'IndexHeader'),
        Decl(HDR, 'enum', 'IndexData'),
        Decl(HDR, 'struct', 'IndexEntry',
             subs=[('T: num::FromPrimitive', 'T: Tag', 1, R5)]),
        Decl(HDR, 'struct', 'Header'),
    ]


def ret(name='r'):
    """Substitution that names the return value of the extracted fn: `-> TYPE {` becomes
    `-> (r: TYPE) {`; type-agnostic, so a change of the return type does not lose the anchor."""
    return (re.compile(r'\)\s*->\s*([^{;]+?)\s*(?=/\*@SPEC@\*/)'), r') -> (%s: \1) ' % name, 1, 'name-return-value')


HEAD = [Prelude('head.rs'), Prelude('tag.rs'), Prelude('serspec.rs')]
TAIL = [Raw('\n} // verus!\n')]
