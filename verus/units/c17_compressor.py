"""C17 (one sentence): a compression level reaches an encoder constructor only inside the range
the encoder documents; otherwise an error is returned - never a crash."""
import re
from vunit import Raw, Prelude, Fn, Decl
from common import *

NAME = 'c17_compressor'
COMP = 'src/rpm/compressor.rs'
CFG = (re.compile(r'[ \t]*#\[(?:cfg|cfg_attr|allow)\([^\]]*\)\]\s*\n'), '', None, 'R1-cfg-attributes (all compression features on, zstdmt off)')
ZSTDMT = (re.compile(r'[ \t]*#\[cfg\(feature = "zstdmt"\)\]\s*\n\s*\{.*?\n\s*\}\n', re.S), '', None, 'R1-cfg(zstdmt) block removed (feature off)')

PARTS = [Prelude('head.rs'), Prelude('serspec.rs')] + io_head() + [
    Raw('''
// ---- A-ENC: encoder constructors with their DOCUMENTED level ranges as preconditions ----------
// flate2::Compression::new: "typically on a scale of 0-9"; liblzma XzEncoder::new: preset 0..=9
// (Stream::new_easy_encoder(..).unwrap() panics otherwise); bzip2::Compression::new: "A level
// outside of the 1..=9 range will throw a panic"; zstd Encoder::new: any i32 (zstd clamps), returns
// io::Result.  Inside these ranges the constructors are assumed not to panic.
pub mod flate2 {
    use vstd::prelude::*;
    pub struct Compression { pub level: u32 }
    impl Compression {
        #[verifier::external_body]
        pub fn new(level: u32) -> (r: Compression) requires level <= 9 { unimplemented!() }
    }
    pub mod write {
        pub struct GzEncoder<W> { pub w: W }
        impl<W> GzEncoder<W> {
            #[verifier::external_body]
            pub fn new(w: W, level: super::Compression) -> (r: GzEncoder<W>) { unimplemented!() }
        }
    }
}
pub mod zstd { pub mod stream {
    use super::super::*;
    pub struct Encoder<W> { pub w: W }
    impl<W> Encoder<W> {
        #[verifier::external_body]
        pub fn new(w: W, level: i32) -> (r: Result<Encoder<W>, Error>) { unimplemented!() }
    }
} }
pub mod liblzma { pub mod write {
    use vstd::prelude::*;
    pub struct XzEncoder<W> { pub w: W }
    impl<W> XzEncoder<W> {
        #[verifier::external_body]
        pub fn new(w: W, level: u32) -> (r: XzEncoder<W>) requires level <= 9 { unimplemented!() }
    }
} }
pub mod bzip2 {
    use vstd::prelude::*;
    pub struct Compression { pub level: u32 }
    impl Compression {
        #[verifier::external_body]
        pub fn new(level: u32) -> (r: Compression) requires 1 <= level <= 9 { unimplemented!() }
    }
    pub mod write {
        pub struct BzEncoder<W> { pub w: W }
        impl<W> BzEncoder<W> {
            #[verifier::external_body]
            pub fn new(w: W, level: super::Compression) -> (r: BzEncoder<W>) { unimplemented!() }
        }
    }
}
'''),
    Decl(COMP, 'enum', 'CompressionWithLevel'),
    Decl(COMP, 'enum', 'Compressor', subs=[CFG, ("Encoder<'static, Vec<u8>>", 'Encoder<Vec<u8>>', None, 'R5-lifetime-parameter')]),
    Raw('''
pub open spec fn level_ok(v: CompressionWithLevel) -> bool {
    match v {
        CompressionWithLevel::None => true,
        CompressionWithLevel::Zstd(_) => true,
        CompressionWithLevel::Gzip(l) => l <= 9,
        CompressionWithLevel::Xz(l) => l <= 9,
        CompressionWithLevel::Bzip2(l) => 1 <= l <= 9,
    }
}
impl Compressor {
'''),
    Fn(COMP, 'try_from', impl='impl TryFrom<CompressionWithLevel> for Compressor',
       subs=[('fn try_from(value: CompressionWithLevel) -> Result<Self, Self::Error>', 'pub fn try_from(value: CompressionWithLevel) -> (r: Result<Self, Error>)', 1, 'R10-trait-impl-as-inherent-fn'),
             ZSTDMT, CFG,
             (re.compile(r'Error::UnsupportedCompressorType\(value\.to_string\(\)\)'), 'Error::UnsupportedCompressorType', None, 'R4-error-message'),
             ('Vec::new()', 'Vec::<u8>::new()', None, 'R9-type-annotation'),
             ],
       spec='''    ensures
        // a level the encoder cannot honour is reported as an error (the constructor calls in the
        // body carry the documented ranges as preconditions: reaching one out of range = panic)
        !level_ok(value) ==> r is Err,
        (r is Ok && value is Gzip) ==> r->Ok_0 is Gzip,
        (r is Ok && value is Xz) ==> r->Ok_0 is Xz,
        (r is Ok && value is Zstd) ==> r->Ok_0 is Zstd,
        (r is Ok && value is Bzip2) ==> r->Ok_0 is Bzip2,
        value is None ==> (r is Ok && r->Ok_0 is None),'''),
    Raw('''}
// vacuity canary: must FAIL
pub fn canary_c17(v: CompressionWithLevel)
{
    let r = Compressor::try_from(v);
    assert(r is Err);
}
'''),
] + TAIL

OBLIGATIONS = {'Compressor::try_from': ['C17', 'C09']}
CANARIES = ['canary_c17']
