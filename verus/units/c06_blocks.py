"""C06 (scalar metadata only): every scalar metadata value given to the builder is emitted as a
header record under its rpm tag and type.  Block contracts on the record-assembly statements of
PackageBuilder::prepare_data; the read-back half (same tags, same types) is unit c05_accessors,
the transport (from_entries, write, parse, getters) units c09_from_entries / c14_writers /
c01_parse / Kani getters."""
import re
from vunit import Raw, Prelude, Fn, Decl, Block
from common import *

NAME = 'c06_blocks'
BUILDER = 'src/rpm/builder.rs'
TOSTR = (re.compile(r'"([^"]*)"\.to_string\(\)'), r'str_to_owned("\1")', None, 'R12-to_string on a literal')

# (builder field, tags const, script tag, flags tag, interpreter tag, rpm name)
SCRIPTLETS = [
    ('pre_inst_script', 1023, 5020, 1085, '%pre'),
    ('post_inst_script', 1024, 5021, 1086, '%post'),
    ('pre_uninst_script', 1025, 5022, 1087, '%preun'),
    ('post_uninst_script', 1026, 5023, 1088, '%postun'),
    ('pre_trans_script', 1151, 5024, 1153, '%pretrans'),
    ('post_trans_script', 1152, 5025, 1154, '%posttrans'),
    ('pre_untrans_script', 5103, 5107, 5105, '%preuntrans'),
    ('post_untrans_script', 5104, 5108, 5106, '%postuntrans'),
    ('verify_script', 1079, 5026, 1091, '%verifyscript'),
]
SCRIPT_BLOCKS = []
# one block per scriptlet kind; the LAST block spans the last two kinds up to the vendor record, so that a
# kind whose emission is missing altogether fails a postcondition instead of losing an anchor
_GROUPS = [[x] for x in SCRIPTLETS[:-2]] + [SCRIPTLETS[-2:]]
for _k, _g in enumerate(_GROUPS):
    _end = ('        if let Some(script) = self.%s {' % _GROUPS[_k + 1][0][0]) if _k + 1 < len(_GROUPS) \
        else '        if let Some(vendor) = self.vendor {'
    _hdr = '''    /// B9.%d - the %s scriptlet is emitted under the rpm tags of THAT kind, earlier records untouched.
    /// Free variables: self, offset, actual_records.
    pub fn b9_%s(self, offset: i32, records: Vec<IndexEntry<IndexTag>>) -> (r: Vec<IndexEntry<IndexTag>>)
        ensures
            prefix_of(records@, r@),
''' % (_k + 1, ' and '.join(x[4] for x in _g), _g[0][0])
    _hdr += '\n'.join('            scriptlet_emitted(r@, self.%s, %d, %d, %d),' % x[:4] for x in _g)
    SCRIPT_BLOCKS.append(Block(
        BUILDER, 'prepare_data', impl='impl PackageBuilder', exclusive=True, keep_start=True,
        start='        if let Some(script) = self.%s {' % _g[0][0], end=_end,
        subs=[(re.compile(r'\A'), '        let mut actual_records = records;\n', 1, 'block prologue: bind the free variable')],
        header=_hdr, tail='\n        actual_records'))

PARTS = HEAD + consts('INDEX_HEADER_SIZE', 'INDEX_ENTRY_SIZE', 'HEADER_MAGIC') + io_head() + header_types() + [
    Prelude('hdrspec.rs'),
] + tag_enums() + [
    Decl(TYPES, 'struct', 'Scriptlet'),
] + consts('PREIN_TAGS', 'POSTIN_TAGS', 'PREUN_TAGS', 'POSTUN_TAGS', 'PRETRANS_TAGS', 'POSTTRANS_TAGS', 'PREUNTRANS_TAGS', 'POSTUNTRANS_TAGS') + [
    Decl(CONST, 'const', 'VERIFYSCRIPT_TAGS', optional=True),   # absent before fix ea8105c: the block then fails its postcondition
] + [
    Raw('''
impl<T: Tag> IndexEntry<T> {
    /// V:c09_from_entries:IndexEntry::new
    #[verifier::external_body]
    pub fn new(tag: T, offset: i32, data: IndexData) -> (r: IndexEntry<T>)
        ensures r.tag == tag.spec_to_u32(), r.offset == offset, r.data == data,
    { unimplemented!() }
}
#[verifier::external_body]
pub fn str_to_owned(s: &str) -> (r: String) ensures r@ == s@ { s.to_owned() }
/// R12: `format!("rpm-rs {}", env!("CARGO_PKG_VERSION"))`
#[verifier::external_body]
pub fn rpmrs_version_string() -> (r: String) { unimplemented!() }
/// R12: `opt.unwrap_or_else(|| s.clone())` (the closure only clones)
#[verifier::external_body]
pub fn or_clone(o: Option<String>, s: &String) -> (r: String)
    ensures r@ == (match o { Some(x) => x@, None => s@ }),
{ unimplemented!() }
/// R5: the scalar metadata fields of PackageBuilder (the other fields are irrelevant to these blocks)
pub struct PackageBuilder {
    pub name: String, pub epoch: u32, pub version: String, pub release: String, pub arch: String,
    pub license: String, pub summary: String, pub desc: Option<String>,
    pub vendor: Option<String>, pub packager: Option<String>, pub group: Option<String>,
    pub url: Option<String>, pub vcs: Option<String>, pub cookie: Option<String>, pub build_host: Option<String>,
    pub pre_inst_script: Option<Scriptlet>, pub post_inst_script: Option<Scriptlet>,
    pub pre_uninst_script: Option<Scriptlet>, pub post_uninst_script: Option<Scriptlet>,
    pub pre_trans_script: Option<Scriptlet>, pub post_trans_script: Option<Scriptlet>,
    pub pre_untrans_script: Option<Scriptlet>, pub post_untrans_script: Option<Scriptlet>,
    pub verify_script: Option<Scriptlet>,
}
/// R5: bitflags type; only `bits()` is used
pub struct ScriptletFlags { pub b: u32 }
impl ScriptletFlags {
    #[verifier::external_body]
    pub fn bits(&self) -> (r: u32) ensures r == self.b { unimplemented!() }
}
pub type ScriptletIndexTags = (IndexTag, IndexTag, IndexTag);
/// a scriptlet given to the builder is emitted under the three tags of its kind (C06):
/// body as a string, flags as int32, interpreter + arguments as a string array
pub open spec fn scriptlet_emitted(recs: Seq<IndexEntry<IndexTag>>, s: Option<Scriptlet>, t_script: u32, t_flags: u32, t_prog: u32) -> bool {
    s is Some ==> {
        &&& has_str(recs, t_script, s->0.script@)
        &&& (s->0.flags is Some ==> has_u32(recs, t_flags, s->0.flags->0.b))
        &&& (s->0.program is Some ==> has_strs(recs, t_prog, s->0.program->0@))
    }
}
pub open spec fn has_str(recs: Seq<IndexEntry<IndexTag>>, tag: u32, s: Seq<char>) -> bool {
    exists|i: int| 0 <= i < recs.len() && (#[trigger] recs[i]).tag == tag && recs[i].data is StringTag && recs[i].data->StringTag_0@ == s
}
pub open spec fn has_i18n(recs: Seq<IndexEntry<IndexTag>>, tag: u32, s: Seq<char>) -> bool {
    exists|i: int| 0 <= i < recs.len() && (#[trigger] recs[i]).tag == tag && recs[i].data is I18NString
        && recs[i].data->I18NString_0@.len() == 1 && recs[i].data->I18NString_0@[0]@ == s
}
pub open spec fn has_u32(recs: Seq<IndexEntry<IndexTag>>, tag: u32, x: u32) -> bool {
    exists|i: int| 0 <= i < recs.len() && (#[trigger] recs[i]).tag == tag && recs[i].data is Int32 && recs[i].data->Int32_0@ == seq![x]
}
pub open spec fn has_strs(recs: Seq<IndexEntry<IndexTag>>, tag: u32, v: Seq<String>) -> bool {
    exists|i: int| 0 <= i < recs.len() && (#[trigger] recs[i]).tag == tag && recs[i].data is StringArray && recs[i].data->StringArray_0@ == v
}
/// every string / int32 / string-array record findable in `a` is findable in `b`
pub open spec fn kept(a: Seq<IndexEntry<IndexTag>>, b: Seq<IndexEntry<IndexTag>>) -> bool {
    &&& forall|t: u32, s: Seq<char>| has_str(a, t, s) ==> #[trigger] has_str(b, t, s)
    &&& forall|t: u32, x: u32| has_u32(a, t, x) ==> #[trigger] has_u32(b, t, x)
    &&& forall|t: u32, v: Seq<String>| has_strs(a, t, v) ==> #[trigger] has_strs(b, t, v)
}
/// `a` is a prefix of `b`, stated index-wise (cheap for the solver along a chain of pushes)
pub open spec fn prefix_of(a: Seq<IndexEntry<IndexTag>>, b: Seq<IndexEntry<IndexTag>>) -> bool {
    &&& a.len() <= b.len()
    &&& forall|i: int| #![trigger a[i]] #![trigger b[i]] 0 <= i < a.len() ==> b[i] == a[i]
}
pub proof fn lemma_prefix_kept(a: Seq<IndexEntry<IndexTag>>, b: Seq<IndexEntry<IndexTag>>)
    requires prefix_of(a, b),
    ensures kept(a, b),
{
    assert forall|t: u32, s: Seq<char>| has_str(a, t, s) implies #[trigger] has_str(b, t, s) by {
        let i = choose|i: int| 0 <= i < a.len() && (#[trigger] a[i]).tag == t && a[i].data is StringTag && a[i].data->StringTag_0@ == s;
        assert(b[i] == a[i]);
    }
    assert forall|t: u32, x: u32| has_u32(a, t, x) implies #[trigger] has_u32(b, t, x) by {
        let i = choose|i: int| 0 <= i < a.len() && (#[trigger] a[i]).tag == t && a[i].data is Int32 && a[i].data->Int32_0@ == seq![x];
        assert(b[i] == a[i]);
    }
    assert forall|t: u32, s: Seq<String>| has_strs(a, t, s) implies #[trigger] has_strs(b, t, s) by {
        let i = choose|i: int| 0 <= i < a.len() && (#[trigger] a[i]).tag == t && a[i].data is StringArray && a[i].data->StringArray_0@ == s;
        assert(b[i] == a[i]);
    }
}
pub proof fn lemma_prefix_trans(a: Seq<IndexEntry<IndexTag>>, b: Seq<IndexEntry<IndexTag>>, c: Seq<IndexEntry<IndexTag>>)
    requires prefix_of(a, b), prefix_of(b, c),
    ensures prefix_of(a, c),
{
    assert forall|i: int| 0 <= i < a.len() implies c[i] == a[i] by { assert(b[i] == a[i]); assert(c[i] == b[i]); }
}
pub proof fn lemma_prefix_emitted(a: Seq<IndexEntry<IndexTag>>, b: Seq<IndexEntry<IndexTag>>, s: Option<Scriptlet>, t1: u32, t2: u32, t3: u32)
    requires prefix_of(a, b), scriptlet_emitted(a, s, t1, t2, t3),
    ensures scriptlet_emitted(b, s, t1, t2, t3),
{
    lemma_prefix_kept(a, b);
}
/// Composition of the per-scriptlet block contracts B9.1 .. B9.n executed in sequence (r[k] is the record
/// list before block k+1): every scriptlet is findable in the final list and the initial records are kept.
pub proof fn lemma_scriptlet_chain(r: Seq<Seq<IndexEntry<IndexTag>>>, s: Seq<Option<Scriptlet>>, t: Seq<(u32, u32, u32)>, n: nat)
    requires
        r.len() == n + 1, s.len() == n, t.len() == n,
        forall|k: int| 0 <= k < n ==> prefix_of(#[trigger] r[k], r[k + 1]) && scriptlet_emitted(r[k + 1], s[k], t[k].0, t[k].1, t[k].2),
    ensures
        prefix_of(r[0], r[n as int]),
        forall|k: int| 0 <= k < n ==> scriptlet_emitted(r[n as int], #[trigger] s[k], t[k].0, t[k].1, t[k].2),
    decreases n,
{
    if n > 0 {
        let m = (n - 1) as nat;
        assert(prefix_of(r[m as int], r[m as int + 1]));
        let r1 = r.take(n as int); let s1 = s.take(m as int); let t1 = t.take(m as int);
        assert forall|k: int| 0 <= k < m implies prefix_of(#[trigger] r1[k], r1[k + 1]) && scriptlet_emitted(r1[k + 1], s1[k], t1[k].0, t1[k].1, t1[k].2) by {
            assert(prefix_of(r[k], r[k + 1]));
        }
        lemma_scriptlet_chain(r1, s1, t1, m);
        lemma_prefix_trans(r[0], r[m as int], r[n as int]);
        assert forall|k: int| 0 <= k < n implies scriptlet_emitted(r[n as int], #[trigger] s[k], t[k].0, t[k].1, t[k].2) by {
            if k < m {
                assert(s1[k] == s[k]);
                lemma_prefix_emitted(r[m as int], r[n as int], s[k], t[k].0, t[k].1, t[k].2);
            }
        }
    }
}
pub broadcast proof fn lemma_push_kept(v: Seq<IndexEntry<IndexTag>>, e: IndexEntry<IndexTag>)
    ensures
        #![trigger v.push(e)]
        e.data is StringTag ==> has_str(v.push(e), e.tag, e.data->StringTag_0@),
        e.data is Int32 ==> forall|x: u32| e.data->Int32_0@ == seq![x] ==> has_u32(v.push(e), e.tag, x),
        e.data is StringArray ==> has_strs(v.push(e), e.tag, e.data->StringArray_0@),
        kept(v, v.push(e)),
{
    let w = v.push(e);
    assert(w[v.len() as int] == e);
    assert forall|t: u32, s: Seq<char>| has_str(v, t, s) implies #[trigger] has_str(w, t, s) by {
        let i = choose|i: int| 0 <= i < v.len() && (#[trigger] v[i]).tag == t && v[i].data is StringTag && v[i].data->StringTag_0@ == s;
        assert(w[i] == v[i]);
    }
    assert forall|t: u32, x: u32| has_u32(v, t, x) implies #[trigger] has_u32(w, t, x) by {
        let i = choose|i: int| 0 <= i < v.len() && (#[trigger] v[i]).tag == t && v[i].data is Int32 && v[i].data->Int32_0@ == seq![x];
        assert(w[i] == v[i]);
    }
    assert forall|t: u32, s: Seq<String>| has_strs(v, t, s) implies #[trigger] has_strs(w, t, s) by {
        let i = choose|i: int| 0 <= i < v.len() && (#[trigger] v[i]).tag == t && v[i].data is StringArray && v[i].data->StringArray_0@ == s;
        assert(w[i] == v[i]);
    }
}
pub open spec fn opt_emitted(recs: Seq<IndexEntry<IndexTag>>, tag: u32, o: Option<String>) -> bool {
    o is Some ==> has_str(recs, tag, o->0@)
}
pub open spec fn grew(old_r: Seq<IndexEntry<IndexTag>>, new_r: Seq<IndexEntry<IndexTag>>) -> bool {
    old_r.len() <= new_r.len() && new_r.subrange(0, old_r.len() as int) == old_r
}
/// pushing a record makes it findable and keeps every earlier record findable
pub broadcast proof fn lemma_push_has(v: Seq<IndexEntry<IndexTag>>, e: IndexEntry<IndexTag>)
    ensures
        #![trigger v.push(e)]
        e.data is StringTag ==> has_str(v.push(e), e.tag, e.data->StringTag_0@),
        forall|t: u32, s: Seq<char>| has_str(v, t, s) ==> #[trigger] has_str(v.push(e), t, s),
        grew(v, v.push(e)),
{
    let w = v.push(e);
    assert(w[v.len() as int] == e);
    assert forall|t: u32, s: Seq<char>| has_str(v, t, s) implies #[trigger] has_str(w, t, s) by {
        let i = choose|i: int| 0 <= i < v.len() && (#[trigger] v[i]).tag == t && v[i].data is StringTag && v[i].data->StringTag_0@ == s;
        assert(w[i] == v[i]);
    }
    assert(w.subrange(0, v.len() as int) =~= v);
}
pub proof fn lemma_grew_trans(a: Seq<IndexEntry<IndexTag>>, b: Seq<IndexEntry<IndexTag>>, c: Seq<IndexEntry<IndexTag>>)
    requires grew(a, b), grew(b, c),
    ensures grew(a, c),
{
    assert(c.subrange(0, a.len() as int) =~= a) by {
        assert forall|i: int| 0 <= i < a.len() implies c[i] == a[i] by {
            assert(b.subrange(0, a.len() as int)[i] == a[i]);
            assert(c.subrange(0, b.len() as int)[i] == b[i]);
        }
    }
}
impl PackageBuilder {
'''),
    Block(BUILDER, 'prepare_data', impl='impl PackageBuilder', exclusive=True,
          start='        let offset = 0;\n', end='\n        ];\n', keep_end=True,   # the `let mut actual_records = vec![ .. ];` statement
         
          subs=[TOSTR,
                ('format!("rpm-rs {}", env!("CARGO_PKG_VERSION"))', 'rpmrs_version_string()', None, 'R12-format!'),
                ('self.desc.unwrap_or_else(|| self.summary.clone())', 'or_clone(self.desc, &self.summary)', None, 'R12-unwrap_or_else(clone)'),
                (re.compile(r'\.expect\(\s*"[^"]*"\s*\)'), '.unwrap()', None, 'R4-expect-message')],
          header='''    /// B6 - the mandatory scalar records.  Free variables: self (consumed), offset, uses_large_files, combined_file_sizes
    pub fn b6_scalar_records(self, offset: i32, uses_large_files: bool, combined_file_sizes: u64) -> (r: Vec<IndexEntry<IndexTag>>)
        requires uses_large_files == (combined_file_sizes > 0xffff_ffff),
        ensures
            has_str(r@, 1000, self.name@),                  // RPMTAG_NAME
            has_u32(r@, 1003, self.epoch),                  // RPMTAG_EPOCH
            has_str(r@, 1001, self.version@),               // RPMTAG_VERSION
            has_str(r@, 1002, self.release@),               // RPMTAG_RELEASE
            has_i18n(r@, 1004, self.summary@),              // RPMTAG_SUMMARY
            has_i18n(r@, 1005, match self.desc { Some(d) => d@, None => self.summary@ }),   // RPMTAG_DESCRIPTION
            has_str(r@, 1014, self.license@),               // RPMTAG_LICENSE
            has_str(r@, 1022, self.arch@),                  // RPMTAG_ARCH
            self.group is Some ==> has_i18n(r@, 1016, self.group->0@),   // RPMTAG_GROUP''',
          tail='''
        proof {
            let recs = actual_records@;
            assert(recs[2].tag == 1000 && recs[3].tag == 1003 && recs[5].tag == 1001 && recs[6].tag == 1002);
            assert(recs[7].tag == 1005 && recs[8].tag == 1004 && recs[10].tag == 1014 && recs[12].tag == 1016 && recs[13].tag == 1022);
            assert(recs[3].data->Int32_0@ =~= seq![self.epoch]);
        }
        actual_records'''),
    Block(BUILDER, 'prepare_data', impl='impl PackageBuilder', exclusive=True,
          start='        if let Some(vendor) = self.vendor {', keep_start=True,
          end='        let header = Header::from_entries(actual_records, IndexTag::RPMTAG_HEADERIMMUTABLE);',
          subs=[(re.compile(r'\A'), '        let mut actual_records = records;\n        broadcast use lemma_push_has;\n', 1, 'block prologue: bind the free variable'),
                ],
          header='''    /// B7 - the optional scalar records at the end of prepare_data.  Free variables: self, offset, actual_records
    pub fn b7_optional_records(self, offset: i32, records: Vec<IndexEntry<IndexTag>>) -> (r: Vec<IndexEntry<IndexTag>>)
        ensures
            // records already there stay findable
            forall|t: u32, s: Seq<char>| has_str(records@, t, s) ==> #[trigger] has_str(r@, t, s),
            opt_emitted(r@, 1011, self.vendor),             // RPMTAG_VENDOR
            opt_emitted(r@, 1015, self.packager),           // RPMTAG_PACKAGER
            opt_emitted(r@, 1020, self.url),                // RPMTAG_URL
            opt_emitted(r@, 5034, self.vcs),                // RPMTAG_VCS
            opt_emitted(r@, 1094, self.cookie),             // RPMTAG_COOKIE''',
          tail='''
        actual_records'''),
    Raw('}\nimpl Scriptlet {\n'),
    Fn(TYPES, 'apply', impl='impl Scriptlet',
       subs=[('vec![flags.bits()]', 'vec_one_u32(flags.bits())', None, 'R9-vec![x]')],
       spec='''    ensures
        prefix_of(old(records)@, final(records)@),
        scriptlet_emitted(final(records)@, Some(self), tags.0.spec_to_u32(), tags.1.spec_to_u32(), tags.2.spec_to_u32()),''',
       prologue='broadcast use lemma_push_kept;',
       before=[]),
    Raw('''}
#[verifier::external_body]
pub fn vec_one_u32(x: u32) -> (r: Vec<u32>) ensures r@ == seq![x] { vec![x] }
impl PackageBuilder {
'''),
] + SCRIPT_BLOCKS + [
    Raw('''}
// vacuity canaries: must FAIL
pub fn canary_b9(b: PackageBuilder, records: Vec<IndexEntry<IndexTag>>)
{
    let ghost n = records@.len();
    let r = b.b9_post_untrans_script(0, records);
    assert(r@.len() == n);
}
pub fn canary_b7(b: PackageBuilder, records: Vec<IndexEntry<IndexTag>>)
{
    let r = b.b7_optional_records(0, records);
    assert(r@.len() == 0);
}
'''),
] + TAIL

OBLIGATIONS = {'PackageBuilder::b6_scalar_records': ['C06', 'C17'],   # C17: the `expect` on narrowing the installed size cannot fail
               'PackageBuilder::b7_optional_records': ['C06'], 'lemma_push_has': ['C06'], 'lemma_grew_trans': ['C06'], 'Scriptlet::apply': ['C06'], 'lemma_prefix_trans': ['C06'], 'lemma_prefix_emitted': ['C06'], 'lemma_scriptlet_chain': ['C06'], 'lemma_push_kept': ['C06'], 'lemma_prefix_kept': ['C06']}
OBLIGATIONS.update({'PackageBuilder::b9_%s' % g[0][0]: ['C06'] for g in _GROUPS})
CANARIES = ['canary_b7', 'canary_b9']
