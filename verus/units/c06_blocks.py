"""C06 (scalar metadata only): every scalar metadata value given to the builder is emitted as a
header record under its rpm tag and type.  Block contracts on the record-assembly statements of
PackageBuilder::prepare_data; the read-back half (same tags, same types) is unit c05_accessors,
the transport (from_entries, write, parse, getters) units c09_from_entries / c14_writers /
c01_parse / Kani getters."""
import re
from vunit import Raw, Prelude, Fn, Decl, Block
from common import *

NAME = 'c06_blocks'
BUILDER = 'src/rpm/builder.rs'
TOSTR = (re.compile(r'"([^"]*)"\.to_string\(\)'), r'str_to_owned("\1")', None, 'R12-to_string on a literal')

PARTS = HEAD + consts('INDEX_HEADER_SIZE', 'INDEX_ENTRY_SIZE', 'HEADER_MAGIC') + io_head() + header_types() + [
    Prelude('hdrspec.rs'),
] + tag_enums() + [
    Raw('''
impl<T: Tag> IndexEntry<T> {
    /// V:c09_from_entries:IndexEntry::new
    #[verifier::external_body]
    pub fn new(tag: T, offset: i32, data: IndexData) -> (r: IndexEntry<T>)
        ensures r.tag == tag.spec_to_u32(), r.offset == offset, r.data == data,
    { unimplemented!() }
}
#[verifier::external_body]
pub fn str_to_owned(s: &str) -> (r: String) ensures r@ == s@ { s.to_owned() }
/// R12: `format!("rpm-rs {}", env!("CARGO_PKG_VERSION"))`
#[verifier::external_body]
pub fn rpmrs_version_string() -> (r: String) { unimplemented!() }
/// R12: `opt.unwrap_or_else(|| s.clone())` (the closure only clones)
#[verifier::external_body]
pub fn or_clone(o: Option<String>, s: &String) -> (r: String)
    ensures r@ == (match o { Some(x) => x@, None => s@ }),
{ unimplemented!() }
/// R5: the scalar metadata fields of PackageBuilder (the other fields are irrelevant to these blocks)
pub struct PackageBuilder {
    pub name: String, pub epoch: u32, pub version: String, pub release: String, pub arch: String,
    pub license: String, pub summary: String, pub desc: Option<String>,
    pub vendor: Option<String>, pub packager: Option<String>, pub group: Option<String>,
    pub url: Option<String>, pub vcs: Option<String>, pub cookie: Option<String>, pub build_host: Option<String>,
}
pub open spec fn has_str(recs: Seq<IndexEntry<IndexTag>>, tag: u32, s: Seq<char>) -> bool {
    exists|i: int| 0 <= i < recs.len() && (#[trigger] recs[i]).tag == tag && recs[i].data is StringTag && recs[i].data->StringTag_0@ == s
}
pub open spec fn has_i18n(recs: Seq<IndexEntry<IndexTag>>, tag: u32, s: Seq<char>) -> bool {
    exists|i: int| 0 <= i < recs.len() && (#[trigger] recs[i]).tag == tag && recs[i].data is I18NString
        && recs[i].data->I18NString_0@.len() == 1 && recs[i].data->I18NString_0@[0]@ == s
}
pub open spec fn has_u32(recs: Seq<IndexEntry<IndexTag>>, tag: u32, x: u32) -> bool {
    exists|i: int| 0 <= i < recs.len() && (#[trigger] recs[i]).tag == tag && recs[i].data is Int32 && recs[i].data->Int32_0@ == seq![x]
}
pub open spec fn opt_emitted(recs: Seq<IndexEntry<IndexTag>>, tag: u32, o: Option<String>) -> bool {
    o is Some ==> has_str(recs, tag, o->0@)
}
pub open spec fn grew(old_r: Seq<IndexEntry<IndexTag>>, new_r: Seq<IndexEntry<IndexTag>>) -> bool {
    old_r.len() <= new_r.len() && new_r.subrange(0, old_r.len() as int) == old_r
}
/// pushing a record makes it findable and keeps every earlier record findable
pub broadcast proof fn lemma_push_has(v: Seq<IndexEntry<IndexTag>>, e: IndexEntry<IndexTag>)
    ensures
        #![trigger v.push(e)]
        e.data is StringTag ==> has_str(v.push(e), e.tag, e.data->StringTag_0@),
        forall|t: u32, s: Seq<char>| has_str(v, t, s) ==> #[trigger] has_str(v.push(e), t, s),
        grew(v, v.push(e)),
{
    let w = v.push(e);
    assert(w[v.len() as int] == e);
    assert forall|t: u32, s: Seq<char>| has_str(v, t, s) implies #[trigger] has_str(w, t, s) by {
        let i = choose|i: int| 0 <= i < v.len() && (#[trigger] v[i]).tag == t && v[i].data is StringTag && v[i].data->StringTag_0@ == s;
        assert(w[i] == v[i]);
    }
    assert(w.subrange(0, v.len() as int) =~= v);
}
pub proof fn lemma_grew_trans(a: Seq<IndexEntry<IndexTag>>, b: Seq<IndexEntry<IndexTag>>, c: Seq<IndexEntry<IndexTag>>)
    requires grew(a, b), grew(b, c),
    ensures grew(a, c),
{
    assert(c.subrange(0, a.len() as int) =~= a) by {
        assert forall|i: int| 0 <= i < a.len() implies c[i] == a[i] by {
            assert(b.subrange(0, a.len() as int)[i] == a[i]);
            assert(c.subrange(0, b.len() as int)[i] == b[i]);
        }
    }
}
impl PackageBuilder {
'''),
    Block(BUILDER, 'prepare_data', impl='impl PackageBuilder', exclusive=True,
          start='        let offset = 0;\n', end='        let now = Timestamp::now();',
          subs=[TOSTR,
                ('format!("rpm-rs {}", env!("CARGO_PKG_VERSION"))', 'rpmrs_version_string()', None, 'R12-format!'),
                ('self.desc.unwrap_or_else(|| self.summary.clone())', 'or_clone(self.desc, &self.summary)', None, 'R12-unwrap_or_else(clone)'),
                (re.compile(r'\.expect\(\s*"[^"]*"\s*\)'), '.unwrap()', None, 'R4-expect-message')],
          header='''    /// B6 - the mandatory scalar records.  Free variables: self (consumed), offset, uses_large_files, combined_file_sizes
    pub fn b6_scalar_records(self, offset: i32, uses_large_files: bool, combined_file_sizes: u64) -> (r: Vec<IndexEntry<IndexTag>>)
        requires uses_large_files == (combined_file_sizes > 0xffff_ffff),
        ensures
            has_str(r@, 1000, self.name@),                  // RPMTAG_NAME
            has_u32(r@, 1003, self.epoch),                  // RPMTAG_EPOCH
            has_str(r@, 1001, self.version@),               // RPMTAG_VERSION
            has_str(r@, 1002, self.release@),               // RPMTAG_RELEASE
            has_i18n(r@, 1004, self.summary@),              // RPMTAG_SUMMARY
            has_i18n(r@, 1005, match self.desc { Some(d) => d@, None => self.summary@ }),   // RPMTAG_DESCRIPTION
            has_str(r@, 1014, self.license@),               // RPMTAG_LICENSE
            has_str(r@, 1022, self.arch@),                  // RPMTAG_ARCH
            self.group is Some ==> has_i18n(r@, 1016, self.group->0@),   // RPMTAG_GROUP''',
          tail='''
        proof {
            let recs = actual_records@;
            assert(recs[2].tag == 1000 && recs[3].tag == 1003 && recs[5].tag == 1001 && recs[6].tag == 1002);
            assert(recs[7].tag == 1005 && recs[8].tag == 1004 && recs[10].tag == 1014 && recs[12].tag == 1016 && recs[13].tag == 1022);
            assert(recs[3].data->Int32_0@ =~= seq![self.epoch]);
        }
        actual_records'''),
    Block(BUILDER, 'prepare_data', impl='impl PackageBuilder', exclusive=True,
          start='            script.apply(&mut actual_records, offset, POSTUNTRANS_TAGS);\n        }\n',
          end='        let header = Header::from_entries(actual_records, IndexTag::RPMTAG_HEADERIMMUTABLE);',
          subs=[(re.compile(r'\A'), '        let mut actual_records = records;\n        broadcast use lemma_push_has;\n', 1, 'block prologue: bind the free variable'),
                ],
          header='''    /// B7 - the optional scalar records at the end of prepare_data.  Free variables: self, offset, actual_records
    pub fn b7_optional_records(self, offset: i32, records: Vec<IndexEntry<IndexTag>>) -> (r: Vec<IndexEntry<IndexTag>>)
        ensures
            // records already there stay findable
            forall|t: u32, s: Seq<char>| has_str(records@, t, s) ==> #[trigger] has_str(r@, t, s),
            opt_emitted(r@, 1011, self.vendor),             // RPMTAG_VENDOR
            opt_emitted(r@, 1015, self.packager),           // RPMTAG_PACKAGER
            opt_emitted(r@, 1020, self.url),                // RPMTAG_URL
            opt_emitted(r@, 5034, self.vcs),                // RPMTAG_VCS
            opt_emitted(r@, 1094, self.cookie),             // RPMTAG_COOKIE''',
          tail='''
        actual_records'''),
    Raw('''}
// vacuity canary: must FAIL
pub fn canary_b7(b: PackageBuilder, records: Vec<IndexEntry<IndexTag>>)
{
    let r = b.b7_optional_records(0, records);
    assert(r@.len() == 0);
}
'''),
] + TAIL

OBLIGATIONS = {'PackageBuilder::b6_scalar_records': ['C06'], 'PackageBuilder::b7_optional_records': ['C06'], 'lemma_push_has': ['C06'], 'lemma_grew_trans': ['C06']}
CANARIES = ['canary_b7']
