"""C05 / C06 (file paths read back): PackageMetadata::get_file_paths returns, for file i, the directory name stored at
index DIRINDEXES[i] joined with BASENAMES[i] - in order, for as many files as the shorter of the two arrays; a
directory index outside DIRNAMES is an error, all three tags absent the empty list.  Verbatim body; the
`zip(..).try_fold(..)` is a helper whose contract is the fold of the (verbatim) closure."""
import re
from vunit import Raw, Prelude, Fn, Decl, Block
from common import *

NAME = 'c05_paths'

PARTS = HEAD + consts('INDEX_HEADER_SIZE', 'INDEX_ENTRY_SIZE', 'HEADER_MAGIC') + io_head() + header_types() + [
    Prelude('hdrspec.rs'),
] + tag_enums() + [
    Prelude('getters.rs'),
    Raw('pub struct Lead { pub bytes: [u8; 96] }\n'),
    Decl(PKG, 'struct', 'PackageMetadata'),
    Raw('''
/// std::path: only the text matters here; `Path::new(dir).join(base)` is an uninterpreted function of the two texts
/// (for a directory name ending in '/' and a base name without '/', the concatenation - A-PATH)
pub struct PathBuf { pub text: Ghost<Seq<char>> }
pub struct Path { pub text: Ghost<Seq<char>> }
pub uninterp spec fn path_join(dir: Seq<char>, base: Seq<char>) -> Seq<char>;
impl Path {
    #[verifier::external_body]
    pub fn new(s: &String) -> (r: &Path) ensures r.text@ == s@ { unimplemented!() }
    #[verifier::external_body]
    pub fn join(&self, base: &String) -> (r: PathBuf) ensures r.text@ == path_join(self.text@, base@) { unimplemented!() }
}
#[verifier::external_body]
pub fn slice_get<'a>(s: &'a [String], i: usize) -> (r: Option<&'a String>)
    ensures match r { Some(x) => i < s@.len() && *x == s@[i as int], None => i >= s@.len() },
{ s.get(i) }
#[verifier::external_body]
pub fn err_invalid_index() -> (e: Error) { unimplemented!() }
#[verifier::external_body]
pub fn paths_with_capacity(n: usize) -> (r: Vec<PathBuf>) ensures r@.len() == 0 { Vec::with_capacity(n) }

// ---- R43: `a.iter().zip(b.into_iter()).try_fold(init, f)`: the fold of f over the pairs, left to right, stopping at the first Err
pub open spec fn fold_from<F: Fn(Vec<PathBuf>, (&String, u32)) -> Result<Vec<PathBuf>, Error>>(
    a: Seq<String>, b: Seq<u32>, k: int, acc: Vec<PathBuf>, f: F, r: Result<Vec<PathBuf>, Error>) -> bool
    decreases a.len() - k,
{
    if k < 0 || k >= a.len() || k >= b.len() { r == Ok::<Vec<PathBuf>, Error>(acc) }
    else {
        exists|o: Result<Vec<PathBuf>, Error>| #[trigger] f.ensures((acc, (&a[k], b[k])), o) && (match o {
            Ok(acc2) => fold_from(a, b, k + 1, acc2, f, r),
            Err(e) => r == Err::<Vec<PathBuf>, Error>(e),
        })
    }
}
#[verifier::external_body]
pub fn zip_try_fold<F: Fn(Vec<PathBuf>, (&String, u32)) -> Result<Vec<PathBuf>, Error>>(a: &[String], b: Vec<u32>, init: Vec<PathBuf>, f: F) -> (r: Result<Vec<PathBuf>, Error>)
    requires forall|acc: Vec<PathBuf>, x: &String, y: u32| #[trigger] f.requires((acc, (x, y))),
    ensures fold_from(a@, b@, 0, init, f, r),
{ unimplemented!() }

/// what one step of the closure of get_file_paths does
pub open spec fn step_ok(dirs: Seq<String>, acc: Vec<PathBuf>, base: String, idx: u32, o: Result<Vec<PathBuf>, Error>) -> bool {
    match o {
        Ok(acc2) => idx < dirs.len() && acc2@.len() == acc@.len() + 1 && acc2@.subrange(0, acc@.len() as int) =~= acc@
            && acc2@[acc@.len() as int].text@ == path_join(dirs[idx as int]@, base@),
        Err(_) => idx >= dirs.len(),
    }
}
/// the paths assembled so far are the first k of the result
/// path i is the directory its index names, joined with its base name
pub open spec fn path_ok(dirs: Seq<String>, a: Seq<String>, b: Seq<u32>, i: int, p: PathBuf) -> bool {
    b[i] < dirs.len() && p.text@ == path_join(dirs[b[i] as int]@, a[i]@)
}
pub open spec fn paths_upto(dirs: Seq<String>, a: Seq<String>, b: Seq<u32>, k: int, v: Seq<PathBuf>) -> bool {
    // (one predicate under the quantifier: a conjunction would be split when asserted, and the half without v[i] has no trigger)
    v.len() == k && forall|i: int| 0 <= i < k ==> path_ok(dirs, a, b, i, #[trigger] v[i])
}
pub open spec fn min2(x: int, y: int) -> int { if x <= y { x } else { y } }
pub proof fn lemma_paths_push(dirs: Seq<String>, a: Seq<String>, b: Seq<u32>, k: int, v: Seq<PathBuf>, v2: Seq<PathBuf>)
    requires
        0 <= k < a.len(), k < b.len(),
        paths_upto(dirs, a, b, k, v),
        v2.len() == k + 1, v2.subrange(0, k) =~= v,
        b[k] < dirs.len(), v2[k].text@ == path_join(dirs[b[k] as int]@, a[k]@),
    ensures paths_upto(dirs, a, b, k + 1, v2),
{
    assert forall|i: int| 0 <= i < k + 1 implies path_ok(dirs, a, b, i, #[trigger] v2[i]) by {
        if i < k {
            assert(v2.subrange(0, k)[i] == v2[i]);
            assert(v[i] == v2[i]);
        }
    }
}
/// induction over the fold: every step appends dirs[b[k]] joined with a[k]
pub proof fn lemma_fold<F: Fn(Vec<PathBuf>, (&String, u32)) -> Result<Vec<PathBuf>, Error>>(
    dirs: Seq<String>, a: Seq<String>, b: Seq<u32>, k: int, acc: Vec<PathBuf>, f: F, r: Result<Vec<PathBuf>, Error>)
    requires
        0 <= k <= min2(a.len() as int, b.len() as int),
        fold_from(a, b, k, acc, f, r),
        paths_upto(dirs, a, b, k, acc@),
        forall|acc: Vec<PathBuf>, x: &String, y: u32, o: Result<Vec<PathBuf>, Error>| #[trigger] f.ensures((acc, (x, y)), o) ==> step_ok(dirs, acc, *x, y, o),
    ensures
        r is Ok ==> paths_upto(dirs, a, b, min2(a.len() as int, b.len() as int), r->Ok_0@),
        r is Err ==> exists|j: int| 0 <= j < min2(a.len() as int, b.len() as int) && #[trigger] b[j] >= dirs.len(),
    decreases a.len() - k,
{
    if k < a.len() && k < b.len() {
        let o = choose|o: Result<Vec<PathBuf>, Error>| #[trigger] f.ensures((acc, (&a[k], b[k])), o) && (match o {
            Ok(acc2) => fold_from(a, b, k + 1, acc2, f, r),
            Err(e) => r == Err::<Vec<PathBuf>, Error>(e),
        });
        assert(step_ok(dirs, acc, a[k], b[k], o));
        match o {
            Ok(acc2) => {
                lemma_paths_push(dirs, a, b, k, acc@, acc2@);
                lemma_fold(dirs, a, b, k + 1, acc2, f, r);
            },
            Err(e) => { assert(b[k] >= dirs.len()); },
        }
    }
}
impl PackageMetadata {
'''),
    Fn(PKG, 'get_file_paths', impl='impl PackageMetadata',
       subs=[ret(),
             (re.compile(r'Err\(Error::TagNotFound\(_\)\)'), 'Err(Error::TagNotFound)', None, 'R5-error payload (the tag name) dropped'),
             (re.compile(r'let v = (\w+)\s*\.iter\(\)\s*\.zip\((\w+)\.into_iter\(\)\)\s*\.try_fold::<Vec<PathBuf>, _, _>\(\s*Vec::<PathBuf>::with_capacity\((\w+)\.len\(\)\),\s*\|mut acc, item\| \{', re.S),
              r'''let ghost idx_seq = \2@;
                let init = paths_with_capacity(\3.len());
                let ghost init_g = init;
                let step = |acc0: Vec<PathBuf>, item: (&String, u32)| -> (o: Result<Vec<PathBuf>, Error>)
                            ensures step_ok(dirs@, acc0, *item.0, item.1, o)
                        {
                            let mut acc = acc0;''', 1, 'R43-zip + try_fold as the fold of the closure; closure contract spliced; `mut` parameter rebound'),
             ('dirs.get(dir_index as usize)', 'slice_get(dirs, dir_index as usize)', 1, 'R12-slice::get'),
             (re.compile(r'Err\(Error::InvalidTagIndex \{.*?\}\)', re.S), 'Err(err_invalid_index())', 1, 'R12-error payload dropped'),
             (re.compile(r'\},\s*\)\?;\s*\n(\s*)Ok\(v\)'), r'''};
                let folded = zip_try_fold(basenames, biject, init, step);
                proof { lemma_fold(dirs@, basenames@, idx_seq, 0, init_g, step, folded); }
                let v = folded?;
\1Ok(v)''', 1, 'R43: the call, the induction lemma over the fold, then the `?`'),
             ('Ok(vec![])', 'Ok(Vec::new())', 1, 'R9-vec![]'),
             ],
       spec='''    ensures
        match (get_strarr(self.header, 1117), get_u32arr(self.header, 1116), get_strarr(self.header, 1118)) {
            // BASENAMES, DIRINDEXES, DIRNAMES all stored
            (Some(base), Some(idx), Some(dirs)) => {
                &&& r is Ok ==> paths_upto(dirs, base, idx, min2(base.len() as int, idx.len() as int), r->Ok_0@)
                &&& r is Err ==> exists|j: int| 0 <= j < min2(base.len() as int, idx.len() as int) && #[trigger] idx[j] >= dirs.len()
            },
            _ => (r is Ok ==> r->Ok_0@.len() == 0),
        },
        (entry_of(self.header, 1117) is None && entry_of(self.header, 1116) is None && entry_of(self.header, 1118) is None) ==> r is Ok,''',
       ),
    Block(PKG, 'get_file_entries', impl='impl PackageMetadata', exclusive=True, keep_start=True,
          start='        let sizes = ', end='        let flags = ',
          subs=[(re.compile(r'(\w+)\s*\.into_iter\(\)\s*\.map\(\|(\w+)\| \2 as _\)\s*\.collect::<Vec<u64>>\(\)'), r'widen_u32s(\1)', 1, 'R12-element-wise widening u32 -> u64 collected'),
                (re.compile(r'\.map\(\|(\w+)\| \{'), r'.map(|\1: Vec<u32>| -> (o: Vec<u64>) ensures o@ == widened(\1@) {', 1, 'closure contract spliced'),
                (re.compile(r'\.or_else\(\|_e\| \{'), '''.or_else(|_e: Error| -> (o: Result<Vec<u64>, Error>)
                ensures match get_u32arr(self.header, 1028) { Some(d) => o is Ok && o->Ok_0@ == widened(d), None => o is Err }
            {''', None, 'closure contract spliced'),
                ],
          header='''    /// E2 - the per-file sizes of get_file_entries: the 64-bit array when the package has one, else the 32-bit array widened,
    /// whatever size tags the package carries otherwise.  Free variable: self.header
    pub fn e2_sizes(&self) -> (r: Result<Vec<u64>, Error>)
        ensures match get_u64arr(self.header, 5008) {                      // RPMTAG_LONGFILESIZES
            Some(d) => r is Ok && r->Ok_0@ == d,
            None => match get_u32arr(self.header, 1028) {                  // RPMTAG_FILESIZES
                Some(d) => r is Ok && r->Ok_0@ == widened(d),
                None => r is Err,
            },
        },''',
          tail='''
        sizes'''),
    Raw('''}
pub open spec fn widened(v: Seq<u32>) -> Seq<u64> { Seq::new(v.len(), |i: int| v[i] as u64) }
#[verifier::external_body]
pub fn widen_u32s(v: Vec<u32>) -> (r: Vec<u64>) ensures r@ == widened(v@) { unimplemented!() }
pub assume_specification<T, E, F, O: FnOnce(E) -> Result<T, F>>[ Result::<T, E>::or_else ](r: Result<T, E>, op: O) -> (res: Result<T, F>)
    requires r is Err ==> op.requires((r->Err_0,)),
    ensures match r { Ok(t) => res == Ok::<T, F>(t), Err(e) => op.ensures((e,), res) };
// vacuity canary: must FAIL
pub fn canary_paths(m: &PackageMetadata)
{
    let r = m.get_file_paths();
    assert(r is Err);
}
'''),
] + TAIL

OBLIGATIONS = {'PackageMetadata::get_file_paths': ['C05', 'C06'], 'PackageMetadata::e2_sizes': ['C05', 'C06'], 'lemma_fold': ['C05'], 'lemma_paths_push': ['C05']}
CANARIES = ['canary_paths']
