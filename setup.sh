#!/bin/sh
# Offline setup: warm the Kani dependency cache (deps of rpm-rs/rpm compiled by Kani's rustc) and
# check that Verus runs.  Everything is rebuilt from files on disk; nothing is fetched.
set -e
cd "$(dirname "$0")"
mkdir -p .cache evidence replays
export CARGO_NET_OFFLINE=true
W=/var/tmp/rpm-verif/setup-$$
mkdir -p "$W"
trap 'rm -rf "$W"' EXIT
rsync -a --delete --exclude /target --exclude /.git /repo/ "$W/repo/"
( cd "$W/repo" && cargo kani --target-dir /verif/.cache/kani-target --only-codegen >/dev/null 2>"$W/kani.log" ) || { tail -30 "$W/kani.log"; echo "setup: kani warm-up failed (checks will build on demand)"; }
cat > "$W/t.rs" <<'EOT'
use vstd::prelude::*;
verus! { proof fn t() ensures 1 + 1 == 2int {} }
fn main() {}
EOT
( cd "$W" && verus t.rs >/dev/null 2>&1 ) && echo "setup: verus ok" || echo "setup: verus self-test failed"
echo "setup: done"
