"""Claimed properties -> the verification units that decide them.  Obligations are the union of
(a) the functions of each listed Verus unit tagged with the property id in the unit's OBLIGATIONS
map and (b) the Kani harnesses tagged with it in kani/registry.py."""

A_TOOLS = 'A-TOOLS: Verus 0.2026.09.13 + z3 4.12; Kani 0.68 + CBMC 6.11 + CaDiCaL; rustc'
A_EXTRACT = ('A-EXTRACT: Verus sees the verbatim text of each function extracted mechanically from /repo at run time, '
             'after the declared rewrites listed per function under functions_under_contract[].rewrites')

PROPS = {
    'C01': dict(
        level='proof', verus=['c14_writers', 'c01_parse'],
        trusted_base=[A_TOOLS, A_EXTRACT, 'A-IO: verus/prelude/{io,read}.rs state the documented std::io Write / Read / Take contracts',
                      'A-LEAF-LINK: the external_body leaf contracts of prelude/leaves.rs, prelude/decode.rs and Lead::parse are the assertion sets of the Kani harnesses k_intro_fields, k_entry_fields, k_entry_short, k_lead_fields, k_take_till_nul, k_parse_binary_entry, k_dec_u16/u32/u64, k_be_link run on the real functions'],
        assumptions=['A-LOSSY: String::from_utf8_lossy is a total function of the bytes (uninterpreted); strings are not part of the serialised form (the store is kept verbatim)',
                     'the numeric / binary / take_till decode leaves are proved by Kani for slices of bounded length (<= 8..16 bytes, all u32 counts): listed under bounded_obligations, not counted as proved',
                     'fixpoint sentence: follows from the two contracts (parse consumes canon-equal bytes; write emits ser) - the composition lemma over whole packages is stated per segment in meta_parsed, not as one closed lemma'],
        explanation='Write side: every serialiser emits exactly ser(x) (Verus, verbatim bodies, any sink). Read side: Header::parse / parse_header (including the real per-type decode loop, desugared to an index loop) / parse_signature / PackageMetadata::parse / Package::parse consume exactly the serialised length and return a value whose serialisation equals the consumed bytes with the reserved intro bytes and signature padding zeroed (meta_parsed), unbounded in entry count, store size and payload; fixed-size leaves (intro, index entry, lead) are complete Kani proofs over all 16/96-byte inputs.',
    ),
    'C14': dict(
        level='proof', verus=['c14_writers', 'c01_parse'],
        trusted_base=[A_TOOLS, A_EXTRACT, 'A-IO: verus/prelude/io.rs states the documented std::io::Write contract (write accepts n<=len bytes or fails having accepted none; write_all appends all or fails having appended a prefix)',
                      'A-LEAF-LINK: BeBytes contract == std to_be_bytes, proved for all values by Kani k_be_link'],
        assumptions=['Error conversions performed by `?` are abstracted to one enum (R4): no effect on control flow'],
        explanation='Read side: the parsers use the source only through read_exact / read_to_end / Take::read_to_end whose contracts mention the remaining stream content, never its chunking, so parse is a function of the byte string and inputs shorter than lead+two intros are Err (postconditions of PackageMetadata::parse / Package::parse). Write side: for ANY sink obeying the Write contract (universally quantified VWrite), every serialiser (intro, index entry, header, signature header + padding, lead, metadata, package) returns Ok only after the sink accepted exactly the canonical bytes and Err only after a prefix of them; proved on the verbatim bodies, unbounded in entries/store/payload.',
    ),
    'C16': dict(
        level='proof', verus=['c16_offsets'],
        trusted_base=[A_TOOLS, A_EXTRACT, 'hand-written spec vocabulary verus/prelude/{serspec,hdrspec}.rs (definitions only)'],
        assumptions=['wf(header): |entries| = num_entries and |store| = data_section_size, established by the C01 parse contract '
                     'and by from_entries (C09); assumed here as the precondition of the boundary lemma',
                     'machine arithmetic is NOT treated as mathematical: every + and * in the extracted bodies carries an overflow obligation'],
        explanation='Verbatim bodies of Header::size, padding_required, get_package_segment_offsets proved equal to the '
                    'mathematical segment boundaries of the canonical serialisation; unbounded in entry count and store size.',
    ),
    'C18': dict(
        level='proof', verus=['c18_filemode'],
        trusted_base=[A_TOOLS, A_EXTRACT],
        assumptions=['Verus leaves `i32 as u16` of an out-of-range value unspecified; the bit-precise statement for negative '
                     'in-range integers is discharged by the Kani twin k_filemode_i32 over all 2^32 values'],
        explanation='Every sentence of C18 as postconditions on the verbatim FileMode functions (Verus, bit_vector lemmas) and, '
                    'independently, as loop-free Kani harnesses over all u16 / all i32 (complete enumeration by SAT).',
    ),
}

# "fix:" commits made in /repo (repairs of genuine defects found by the checks; unguarded by design)
FIX_COMMITS = [
    'ba7e0da fix: compute header size and segment offsets in u64',
    '7bb938a fix: write index entries with write_all',
    '442f005 fix: compare all three header magic bytes',
    '49d3edd fix: bound the header read by the input length and compute its size in u64',
    '922ae17 fix: reject index entries whose offset lies outside the store',
    'ce0fcfc fix: unterminated string arrays are an error and i18n items skip their terminator',
    '6ac32fd fix: do not reserve more numeric items than the input can supply',
    'c54702a fix: as_i18n_str returns None for an empty i18n table instead of panicking',
]

NOT_APPLICABLE = {
    'C06': 'the claim lives in PackageBuilder::prepare_data/add_data (750 lines over compressor FFI, clock, HashSet, BTreeMap, Path, format!): Verus cannot take the text and CBMC does not finish even on Header::parse alone; the reachable header-codec inverse is claimed under C05/C09',
    'C11': 'relational property over process environments (per-process RandomState seeds, wall clock, TZ) of prepare_data; neither verifier models a second run or HashSet seeding',
    'C12': 'about file-system effects (create_dir_all, File::create following symlinks, symlink): both verifiers treat std::fs as unsupported foreign calls and have no file-system model',
    'C13': 'compare_version_string is written against &str pattern APIs with closures; Verus has no specifications for them and Kani did not terminate even for two strings of fixed length 2; a byte-level re-implementation would be a model',
    'C19': 'capability grammar is &str code (split_whitespace, find, chars, to_uppercase): same two obstacles as C13',
}
# properties not yet wired up are listed as not applicable until their check exists (kept current)
for _pid, _why in {
    'C01': 'check under construction', 'C02': 'check under construction', 'C03': 'check under construction',
    'C04': 'check under construction', 'C05': 'check under construction', 'C07': 'check under construction',
    'C08': 'check under construction', 'C09': 'check under construction', 'C10': 'check under construction',
    'C14': 'check under construction', 'C15': 'check under construction', 'C17': 'check under construction',
    'C20': 'check under construction',
}.items():
    if _pid not in PROPS:
        NOT_APPLICABLE[_pid] = _why
