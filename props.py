"""Claimed properties -> the verification units that decide them.  Obligations are the union of
(a) the functions of each listed Verus unit tagged with the property id in the unit's OBLIGATIONS
map and (b) the Kani harnesses tagged with it in kani/registry.py."""

A_TOOLS = 'A-TOOLS: Verus 0.2026.09.13 + z3 4.12; Kani 0.68 + CBMC 6.11 + CaDiCaL; rustc'
A_EXTRACT = ('A-EXTRACT: Verus sees the verbatim text of each function extracted mechanically from /repo at run time, '
             'after the declared rewrites listed per function under functions_under_contract[].rewrites')

PROPS = {
    'C01': dict(
        level='proof', verus=['c14_writers', 'c01_parse'],
        trusted_base=[A_TOOLS, A_EXTRACT, 'A-IO: verus/prelude/{io,read}.rs state the documented std::io Write / Read / Take contracts',
                      'A-LEAF-LINK: the external_body leaf contracts of prelude/leaves.rs, prelude/decode.rs and Lead::parse are the assertion sets of the Kani harnesses k_intro_fields, k_entry_fields, k_entry_short, k_lead_fields, k_take_till_nul, k_parse_binary_entry, k_dec_u16/u32/u64, k_be_link run on the real functions'],
        assumptions=['A-LOSSY: String::from_utf8_lossy is a total function of the bytes (uninterpreted); strings are not part of the serialised form (the store is kept verbatim)',
                     'the numeric / binary / take_till decode leaves are proved by Kani for slices of bounded length (<= 8..16 bytes, all u32 counts): listed under bounded_obligations, not counted as proved',
                     'fixpoint sentence: follows from the two contracts (parse consumes canon-equal bytes; write emits ser) - the composition lemma over whole packages is stated per segment in meta_parsed, not as one closed lemma'],
        explanation='Write side: every serialiser emits exactly ser(x) (Verus, verbatim bodies, any sink). Read side: Header::parse / parse_header (including the real per-type decode loop, desugared to an index loop) / parse_signature / PackageMetadata::parse / Package::parse consume exactly the serialised length and return a value whose serialisation equals the consumed bytes with the reserved intro bytes and signature padding zeroed (meta_parsed), unbounded in entry count, store size and payload; fixed-size leaves (intro, index entry, lead) are complete Kani proofs over all 16/96-byte inputs.',
    ),
    'C02': dict(
        level='proof', verus=['c02_verify_sig', 'c03_digests', 'c14_writers', 'c01_parse'],
        trusted_base=[A_TOOLS, A_EXTRACT, 'A-PGP: a Verifying implementation is a function of the bytes and the signature it is shown (`accepts` uninterpreted); base64 decoding is a total function into Option; the pgp crate verifier and its key/subkey selection (signature/pgp.rs) are NOT under contract',
                      'A-HASH (via C03), A-LEAF-LINK: getters = K:k_getters_*, Header::write = unit c14_writers, verify_digests = unit c03_digests'],
        assumptions=['second sentence of C02 (any parsed-value-changing modification of a signed package is rejected) is a corollary only under A-PGP soundness and SHA-256 collision freedom: stated, not proved'],
        explanation='Verbatim body of Package::verify_signature: Ok ==> digests_ok and (OpenPGP array present ==> at least one signature and every one of them base64-decodes and is accepted over exactly ser(header)) and (otherwise ==> at least one of RSA/DSA/PGP present, each present one accepted over ser(header), resp. ser(header)++payload for the legacy tag); every signature-header shape and every accept/reject pattern at once.',
    ),
    'C03': dict(
        level='proof', verus=['c03_digests', 'c14_writers', 'c01_parse'],
        trusted_base=[A_TOOLS, A_EXTRACT, 'A-HASH: md5 / sha1 / sha2 / hex compute MD5 / SHA-1 / SHA-256 / lower-case hex; modelled as uninterpreted functions (hex injective)',
                      'A-LEAF-LINK: getter contracts (prelude/getters.rs) are the assertions of K:k_getters_*; DigestAlgorithm::from_u32 map is K:k_digest_algo; Header::write contract is proved in unit c14_writers'],
        assumptions=['R11: != between &[u8]/Vec<u8>/&str/String is content inequality (std PartialEq); R44: zip().all(==) / zip().fold(0, acc | (x ^ y)) == 0 compare the common prefix only; R45: an uncontracted private helper is inlined at its call site',
                     'the digests are computed over ser(parsed header): that this is the byte string of the file (reserved bytes aside) is the parse contract of unit c01_parse, which is therefore an obligation of C03 and C02 too (seed C03-e: a parser that normalises a count makes altered bytes verify)',
                     '`recorded` = the standard tag is present with its standard data type (MD5 binary; SHA1/SHA256 string; PAYLOADDIGEST string array together with PAYLOADDIGESTALGO int32)'],
        explanation='Verbatim body of Package::verify_digests: Ok <==> every recorded digest equals the digest recomputed from ser(header) / payload (both directions), Err is DigestMismatchError unless the payload algorithm is unsupported, unsupported algorithm => Err, no panic obligations left; all packages and all corruption positions at once because hashes are uninterpreted.',
    ),
    'C04': dict(
        level='proof', verus=['c01_parse', 'c03_digests', 'c02_verify_sig', 'c16_offsets', 'c07_payload', 'c07_iter', 'c05_getters', 'c12_extract'],
        trusted_base=[A_TOOLS, A_EXTRACT, 'A-IO std Read/Take contracts; A-LEAF-LINK leaf contracts = Kani harness assertion sets; R17: every slicing expression is rewritten to a prelude function whose PRECONDITION is the no-panic condition, so each slice is a proof obligation'],
        assumptions=['claimed per function, not for the reader as a whole: NOT covered are the decompressors (zstd/xz FFI, flate2), the pgp packet parser behind signature_key_ids, the iterator-adapter accessor code of package.rs, and heap proportionality beyond the explicit allocation requests (Header::parse buffer via Take, reserve_exact bound, cpio name buffer)',
                     'Verus: absence of overflow / out-of-bounds / unwrap-on-None / debug_assert failure is an automatic obligation of every extracted body; Kani: the same plus pointer checks, bit-precise'],
        explanation='Every reader function brought under contract is panic-, overflow- and OOB-free for ALL its inputs: fixed-size parsers (intro, index entry, lead) by complete Kani proofs; Header::parse / parse_header incl. the per-type decode loop / parse_signature / PackageMetadata::parse / Package::parse / verify_digests / verify_signature / segment offsets / cpio Reader::new, read, finish, FileIterator::next by Verus on the verbatim bodies; decode helpers, getters and echo_signature by bounded Kani harnesses.',
    ),
    'C05': dict(
        level='proof', verus=['c01_parse', 'c05_accessors', 'c05_getters', 'c05_paths', 'c05_entries'],
        trusted_base=[A_TOOLS, A_EXTRACT, 'A-LEAF-LINK: decode helper contracts = K:k_take_till_nul, k_parse_binary_entry, k_dec_u16/u32/u64 on the real functions with real nom', 'A-LOSSY: from_utf8_lossy is a total function of the bytes'],
        assumptions=['get_scriptlet and the nine (now ten, with get_verify_script) scriptlet accessors: Ok exactly when the body is stored as a string under the script tag of THAT kind, flags and interpreter from the two other tags of that kind (absent when missing or ill-typed). get_dependencies (and through it get_provides .. get_supplements) and get_changelog_entries: entry i is built from item i of the three arrays stored under the tags of that kind, in order, up to the shortest array; an error when an array is missing or ill-typed, the empty list when all three are absent (R41: Vec::from_iter(multizip(..).map(f)) as a helper contract, the mapping closure verified). get_file_paths (unit c05_paths): path i is DIRNAMES[DIRINDEXES[i]] joined with BASENAMES[i], in order, up to the shorter of the two arrays; an index outside DIRNAMES is an error (R43: zip + try_fold as the fold of the verbatim closure, with an induction lemma over the fold; Path::join is an uninterpreted function of the two texts). get_file_entries: only the BODY of its fold closure is under contract (block e1_file_entry of unit c05_entries: entry idx is built from the idx-th items handed to it, owner and group not swapped, capability / IMA signature taken at idx, digest text kept with the algorithm, a malformed digest the only error); that the multizip / enumerate / try_fold around it hands the closure item idx of each array, are NOT covered; of the fetching of its ten arrays only the size arrays are (block e2_sizes of unit c05_paths: the 64-bit per-file sizes when the package has them, else the 32-bit ones widened, independently of the package-level size tags) / try_fold / collect / Path::join bodies that Verus rejects and CBMC cannot finish): "file lists assembled as directory[dirindex]+basename" and "lists zipped in order" are not decided',
                     'typed getters: the look-up find_entry_or_err (Iterator::find with a closure) is a bounded Kani proof (3-entry headers, symbolic tags in any order) and an assumed contract in Verus; everything after it - the IndexData::as_* projections and the six getters the accessors use - is proved for headers of any size in unit c05_getters (error payload strings dropped, R12)'],
        explanation='parse_header (verbatim, incl. the real decode loop): for EVERY entry of every accepted header the stored data equals an independent decoding of the store bytes written as spec functions (strings up to the first NUL, integer arrays big-endian at full length, string / i18n arrays item by item with terminators skipped, binary verbatim) - postcondition decoded(entry, store), unbounded; typed getters return the data of the first entry with the tag iff its type matches, else the documented error (unit c05_getters on the verbatim getters and as_* projections, for any number of entries, over the find_entry_or_err contract that K:k_getters_* establish for 3 entries); the 18 scalar accessors of PackageMetadata (name, version, release, epoch, arch, vendor, url, vcs, license, packager, build host/time, cookie, source rpm, summary, description, group, installed size) return what the getter gives for the rpm tag number they are named after; get_installed_size prefers LONGSIZE then SIZE.',
    ),
    'C07': dict(
        level='proof', verus=['c07_payload', 'c07_iter', 'c07_header', 'c09_blocks'],
        trusted_base=[A_TOOLS, A_EXTRACT, 'A-IO std Read / Write / Take / io::copy contracts (prelude/read.rs, io.rs)', 'A-64BIT: usize is 64 bits (global size_of usize == 8)', 'A-SLICE-LEN: slices never exceed isize::MAX bytes'],
        assumptions=['PARTIAL: decided are the cpio framing arithmetic and size accounting of src/rpm/payload.rs (pad, Reader::read, Reader::finish, Writer::write / try_write_header / do_finish and their composition). NOT covered: compressors / decompressors (FFI), that the eight digits format! prints are the hexadecimal digits from_str_radix reads back (both are leaves: hex8_spec here, K:k_read_hex_u32 there), the path matching inside Reader::file_entry_index (&str code), builder file ordering, digest equality of content',
                     'the header produced by Builder::into_header IS a multiple of 4 bytes long and carries the file size and the name length in their fields (unit c07_header; format!("{:08x}", x) as a helper with the contract: eight digits, for values below 2^32 - which makes "the name is shorter than 4 GiB" a precondition of into_header)'],
        explanation='Verbatim bodies: FileIterator::next pairs the content with the header file entry the archive entry NAMES (index returned by Reader::file_entry_index), never by position; Reader::new bounds the name buffer, bounds-checks the stripped file index and sizes the entry from the cpio header resp. the header file entry; pad(len) is (4 - len mod 4) mod 4 NUL bytes; Reader::read never hands out more than file_size - bytes_read, accounts exactly what it handed out and cannot overflow; Reader::finish consumes the rest of the entry plus its padding; Writer::write accepts data only while it fits the announced size and emits the header first; header + full body + finish yields hdr ++ body ++ NUL padding with 4-byte alignment.',
    ),
    'C08': dict(
        level='proof', verus=['c10_sign', 'c08_sigbuild', 'c08_blocks', 'c14_writers', 'c06_add_data', 'c06_files'],
        trusted_base=[A_TOOLS, A_EXTRACT, 'A-HASH: sha2 / hex compute SHA-256 / lower-case hex (uninterpreted)',
                      'A-LEAF-LINK: Header::write contract proved in unit c14_writers',
                      'SignatureHeaderBuilder::build is proved on its verbatim body (unit c08_sigbuild) against the from_entries contract of unit c09_from_entries; A-SIZE: the size precondition of from_entries (< 2 GiB of data) is assumed for signature headers; A-PGP: packet parser / base64 stand-ins'],
        assumptions=['prepare_data as a whole is out of reach (750 lines, compressor FFI, paths, clock); the payload digest / algorithm / alternate digest are covered by a BLOCK contract on the verbatim statement range that computes and records them (b1_payload_digests: proved for every entry state of its free variables); per-file digests: add_data stores hex(sha256(content)) with the content and its length in the entry it hands to the file map (unit c06_add_data), one iteration of the file loop pushes exactly that entry digest (block b10) and the array is emitted under RPMTAG_FILEDIGESTS with algorithm SHA-256 (block b11, unit c06_files). NOT covered: that the hashing writer really wraps the compressor fed with the archive (the surrounding statements of prepare_data)'],
        explanation='Sha256Writer::write (verbatim, any inner sink): the hasher absorbs exactly the bytes the inner writer accepted (Ok(n): buf[..n]; Err: nothing) and into_digest is sha256 of them; PackageBuilder::build, Package::sign_with_timestamp, Package::clear_signatures: the SHA-256 stored in the signature header is hex(sha256(ser(header))) of the header that ends up in the package; add_data: the digest kept for a file is hex(sha256(content)).',
    ),
    'C10': dict(
        level='proof', verus=['c10_sign', 'c08_sigbuild', 'c02_verify_sig', 'c14_writers', 'c10_keyids'],
        trusted_base=[A_TOOLS, A_EXTRACT, 'A-PGP: Signing::sign returns the signer output over exactly the bytes it is shown; Verifying is a function of bytes and signature; real-key semantics (verifies iff same key) and key-id reporting are functional correctness of the pgp crate: assumed / not covered',
                      'built_sig names the header produced by SignatureHeaderBuilder::build; its content (digest under SHA256, all signatures base64 under OPENPGP, the LAST signature under the legacy tag chosen by its key algorithm, no signature tag when none given) is proved in unit c08_sigbuild'],
        assumptions=['R21: the TryInto<Timestamp> conversion at the sign API boundary is dropped (C20 subject)',
                     'signature_key_ids (unit c10_keyids): for a header with an OPENPGP entry the result is Ok exactly when every armoured signature decodes, parses and names one issuer, and then lists those issuers in order; with legacy tags only, the single issuer of the signature consulted last. Base64 decoding, packet parsing and the issuer list are uninterpreted functions of the bytes (pgp crate), so that the id reported IS the id of the key that signed is pgp functional correctness: assumed'],
        explanation='sign_with_timestamp / clear_signatures (verbatim): lead, main header and payload are unchanged (frame, also on Err); the signature header becomes build(digest = hex(sha256(ser(header))), signatures = [signer output over exactly ser(header)]) resp. no signatures; lemma_history: by induction over ALL histories of {sign, clear, write+parse} header and payload stay byte-identical and the signature segment is the one of the last sign/clear; with C02 the package verifies iff the verifier accepts that signature over ser(header).',
    ),
    'C14': dict(
        level='proof', verus=['c14_writers', 'c01_parse'],
        trusted_base=[A_TOOLS, A_EXTRACT, 'A-IO: verus/prelude/io.rs states the documented std::io::Write contract (write accepts n<=len bytes or fails having accepted none; write_all appends all or fails having appended a prefix)',
                      'A-LEAF-LINK: BeBytes contract == std to_be_bytes, proved for all values by Kani k_be_link'],
        assumptions=['Error conversions performed by `?` are abstracted to one enum (R4): no effect on control flow'],
        explanation='Read side: the parsers use the source only through read_exact / read_to_end / Take::read_to_end whose contracts mention the remaining stream content, never its chunking, so parse is a function of the byte string and inputs shorter than lead+two intros are Err (postconditions of PackageMetadata::parse / Package::parse). Write side: for ANY sink obeying the Write contract (universally quantified VWrite), every serialiser (intro, index entry, header, signature header + padding, lead, metadata, package) returns Ok only after the sink accepted exactly the canonical bytes and Err only after a prefix of them; proved on the verbatim bodies, unbounded in entries/store/payload.',
    ),
    'C15': dict(
        level='proof', verus=['c15_nevra'],
        trusted_base=[A_TOOLS, A_EXTRACT,
                      'A-STR: str::split_once(char) / rsplit_once(char) with their documented meaning (None iff the char does not occur; else the text before and after its FIRST / LAST occurrence), stated as contracts of two helper functions the calls are rewritten to (R28)',
                      'A-FMT: write!/format! with a literal format string write the literal pieces and the Display text of the arguments in order (R29: a formatter stand-in that appends text); String and &str display as their text'],
        assumptions=['well-formedness of the components is the property\'s "values a real package can carry", made explicit: epoch, version and release contain neither "-" nor ":", the architecture neither "-" nor "."; the NAME is unrestricted (it may contain "-", "." and ":"); all components may be empty',
                     'no-panic on arbitrary text: Evr::parse_values and Nevra::parse_values are verified without any precondition, and nothing in them can panic (split helpers and unwrap_or only); Evr::parse / Nevra::parse add only the Cow conversions (not in the unit)',
                     'the names of the compression types: loop-free Kani harness over all five values on the real FromStr impl (Display goes through core::fmt and is not executed by the harness; the names are the literals of the Display impl)',
                     "R5: Cow<'a, str> fields are modelled as String (only their text is used)"],
        explanation='Verbatim bodies of Evr::parse_values, Nevra::parse_values, both Display::fmt impls and both as_normalized_form functions. Display writes exactly "[epoch:]version-release" resp. "name-[epoch:]version-release.arch"; parse_values returns, for EVERY text that is the textual form of well-formed components, exactly those components (uniqueness of the first / last split, lemmas by index reasoning); c15_evr_roundtrip / c15_nevra_roundtrip compose the two contracts on executable code; the normalised form parses back to an epoch that is the package\'s or "0", never empty. Kani: from_str(name(c)) == Ok(c) for all five compression types.',
        technique='contract-based deductive verification (Verus) of the parse / format functions against a textual-form spec, plus a Kani harness over the complete 5-value domain of CompressionType',
    ),
    'C16': dict(
        level='proof', verus=['c16_offsets', 'c01_parse', 'c09_from_entries'],
        trusted_base=[A_TOOLS, A_EXTRACT, 'hand-written spec vocabulary verus/prelude/{serspec,hdrspec}.rs (definitions only)'],
        assumptions=['wf(header) is the precondition of the boundary lemma; it is established by the parse functions (unit c01_parse), from_entries (unit c09_from_entries), new_empty and clear - all obligations of this check',
                     'machine arithmetic is NOT treated as mathematical: every + and * in the extracted bodies carries an overflow obligation'],
        explanation='Verbatim bodies of Header::size, padding_required, get_package_segment_offsets proved equal to the '
                    'mathematical segment boundaries of the canonical serialisation; unbounded in entry count and store size.',
    ),
    'C17': dict(
        level='proof', verus=['c17_compressor', 'c17_add_data', 'c19_caps', 'c06_files', 'c06_blocks', 'c09_lead'],
        trusted_base=[A_TOOLS, A_EXTRACT, 'A-ENC: the encoder constructors (flate2, liblzma, bzip2, zstd) do not panic inside their DOCUMENTED level ranges, which are stated as preconditions of stand-in constructors in the unit',
                      'A-PATH: std::path / OsStr / String plumbing called by add_data (PathBuf::from, parent, file_name, strip_prefix, to_string_lossy, starts_with, clone, format!) does not panic; its RESULTS are arbitrary in the unit (no specification), so the proof holds for whatever std::path reports; sha2 / hex / BTreeMap / BTreeSet calls likewise'],
        assumptions=['claimed for TWO parts: "a compression level the encoder cannot honour is reported as an error or mapped to a supported level, never a crash", and "destinations that cannot be split into a directory and a file name are reported as errors": PackageBuilder::add_data (every file setter ends there) has no reachable panic for ANY destination string. Capability text: validate_caps_text / validate_suffix / FileCaps::new / from_str are verified to return Ok or Err for every text without panicking (unit c19_caps, the debug_assert! included; validate_capset itself - split, to_uppercase, table lookup - is not under contract). The two `expect`s of prepare_data on narrowing sizes to 32 bits cannot fail: the per-file sizes (block b12 of unit c06_files) and the installed size (block b6 of unit c06_blocks), both from "uses_large_files is false, so the sizes add up to at most u32::MAX". PackageBuilder::source_date and add_changelog_entry unwrap the conversion of a SystemTime / chrono value into a Timestamp (out-of-range instants panic there): these setters take neither strings nor numbers and return Self, so this is noted, not claimed and not changed. The metadata setters are not claimed',
                     'incompleteness, stated: because std::path results are arbitrary in the unit, an `unwrap` that std::path semantics would justify is NOT provable here and would be reported (the two unwraps repaired by 8440da6 were not justified: 69 of the 1365 destinations over {/ . .. a} up to 5 symbols panicked)',
                     'R1: all compression cfg features treated as enabled, zstdmt off'],
        explanation='Verbatim body of TryFrom<CompressionWithLevel> for Compressor: every encoder constructor call is reached only with a level inside the documented range (precondition obligations), out-of-range levels return Err, and the variant constructed matches the variant requested. Verbatim body of PackageBuilder::add_data: every unwrap / expect / index on a std::path result would be a precondition obligation - there is none left, each case returns Error::InvalidDestinationPath.',
    ),
    'C18': dict(
        level='proof', verus=['c18_filemode'],
        trusted_base=[A_TOOLS, A_EXTRACT],
        assumptions=['Verus leaves `i32 as u16` of an out-of-range value unspecified; the bit-precise statement for negative '
                     'in-range integers is discharged by the Kani twin k_filemode_i32 over all 2^32 values'],
        explanation='Every sentence of C18 as postconditions on the verbatim FileMode functions (Verus, bit_vector lemmas) and, '
                    'independently, as loop-free Kani harnesses over all u16 / all i32 (complete enumeration by SAT).',
    ),
}

# "fix:" commits made in /repo (repairs of genuine defects found by the checks; unguarded by design)
FIX_COMMITS = [
    'ba7e0da fix: compute header size and segment offsets in u64',
    '7bb938a fix: write index entries with write_all',
    '442f005 fix: compare all three header magic bytes',
    '49d3edd fix: bound the header read by the input length and compute its size in u64',
    '922ae17 fix: reject index entries whose offset lies outside the store',
    'ce0fcfc fix: unterminated string arrays are an error and i18n items skip their terminator',
    '6ac32fd fix: do not reserve more numeric items than the input can supply',
    'c54702a fix: as_i18n_str returns None for an empty i18n table instead of panicking',
    '3a189e1 fix: verify_digests returns an error for unknown digest algorithms and empty digest arrays',
    '5a4ce29 fix: verify_signature rejects an empty OpenPGP signature array',
    'c9f4460 fix: echo_signature does not index past short signatures',
    '3b5c0ea fix: Sha256Writer hashes only the bytes the inner writer accepted',
    '9674c65 fix: CompressionType parses "none"',
    '90b6cfd fix: check the cpio name length before allocating the name buffer',
    '03f03bc fix: stripped cpio entries: skip the header alignment and bounds-check the file index',
    'aa5f2eb fix: count the bytes read from a cpio entry in u64',
    '7e5434c fix: cpio Writer compares the written size in u64',
    "2a345c2 fix: reject compression levels outside of the encoders' documented ranges",
    '7cf49d9 fix: pair archive entries with the header file entry they name',
    '797fe0d fix: pad file data in the large-file (stripped cpio) branch of the builder',
    '290c9e0 fix: emit the packager and group given to the builder',
    'ea8105c fix: emit the verify scriptlet given to the builder and add its accessor',
    '8440da6 fix: destinations without a file name or a strippable parent are errors, not panics',
    'ccd6ccb fix: split a NEVRA at its last two dashes so that names may contain dashes',
    '83d41a2 fix: collect the users and groups to create in ordered sets',
    'f08ac32 fix: a file directly under the root has the directory "/", not "//"',
    'e7d12cb fix: check the first character of each capability clause, not of the whole text',
    '48abf43 fix: signature_key_ids checks the issuer count of each signature, not of the accumulated list',
    '441ec8f fix: extraction stays inside the target directory and rejects unknown file types',
]

PROPS['C06'] = dict(
    level='proof', verus=['c06_blocks', 'c06_add_data', 'c06_files', 'c06_deps', 'c05_accessors', 'c05_paths', 'c05_entries', 'c09_from_entries', 'c09_lead'],
    trusted_base=[A_TOOLS, A_EXTRACT, 'A-PATH-SEM: Path::parent / file_name / strip_prefix(".") on clean paths behave as std documents (axioms of unit c06_add_data; K:k_path_semantics checks four fixed paths on the real std::path)', 'BLOCK contracts on verbatim statement ranges of PackageBuilder::prepare_data (the function as a whole is not verified); the transport between the emitted records and the accessors is covered by other checks: from_entries keeps every record (unit c09_from_entries), write/parse reproduce and decode it (C01/C05), typed getters find it (K:k_getters_*)'],
    assumptions=['claimed per part (the function prepare_data as a whole is not verified; the glue between the parts is by reading): SCALARS - name, epoch, version, release, arch, licence, summary, description, group, vendor, packager, URL, VCS, cookie - each is emitted under its rpm tag with its type (blocks b6, b7) and the accessor of that name reads exactly that tag and type (unit c05_accessors); each of the nine scriptlet kinds is emitted by Scriptlet::apply (function contract) under the script / flags / interpreter tags of THAT kind (blocks b9_*, composed by lemma_scriptlet_chain). for every clean destination "<d>/<n>" or ".<d>/<n>" (d a possibly empty sequence of normal components, so files directly under the root are included) add_data records directory "<d>/", base name "<n>" and archive path ".<d>/<n>" (unit c06_add_data; the documented behaviour of std::path on such paths is ASSUMED as axioms A-PATH-SEM, sanity-linked by K:k_path_semantics on four fixed paths). Per-file data, EMITTING half (unit c06_files): one iteration of the file loop appends exactly the size of that file, mode word, clamped mtime, digest, link target, flags, owner, group, verify flags, base name and the index of ITS directory to the parallel arrays (block b10; precondition: the directory is in the directory set of the builder, which add_data establishes), and the arrays are emitted under the tags and types rpm prescribes (block b11); the build host is emitted when set (b8); sizes go out as LONGFILESIZES exactly when they add up to more than u32::MAX, else narrowed to FILESIZES without a reachable panic (b13, b12). Dependencies and changelog, EMITTING half (unit c06_deps): for each of the eight kinds the three arrays are the names, flags and versions of the list of the builder in order (loop blocks d_*) and are emitted under the three tags of THAT kind when the list is not empty, the provides always (blocks r_*); the changelog names, texts and times are emitted in order (r_changelog); the read-back of dependencies (get_dependencies, get_provides .. get_supplements) and of the changelog (get_changelog_entries) is proved in unit c05_accessors against the same numeric tags: entry i from item i of the three arrays, in order. The read-back of scriptlets is get_scriptlet and the ten get_*_script accessors in unit c05_accessors (same numeric tags as the emitting blocks b9_*). NOT covered: the dependencies the builder adds itself to the lists, get_file_entries beyond the body of its fold closure (block e1_file_entry, unit c05_entries; the path itself is get_file_paths, unit c05_paths: directory[dirindex] joined with the base name), the FILECAPS record, uniqueness of the emitted tags across blocks, the builder setters themselves',
                 'R12: `opt.unwrap_or_else(|| s.clone())` is rewritten to a helper with the same value'],
    explanation='For every builder state: the record list assembled by prepare_data contains RPMTAG_NAME/VERSION/RELEASE/LICENSE/ARCH as strings, EPOCH as int32, SUMMARY/DESCRIPTION/GROUP as single-locale i18n strings (description defaulting to the summary), and VENDOR/PACKAGER/URL/VCS/COOKIE whenever set, each with exactly the value given; every scriptlet given (pre/post install, uninstall, trans, untrans and verify) appears with its body as a string, its flags as int32 and its interpreter as a string array under the three tags of its kind, earlier records untouched; and get_name ... get_cookie read exactly those tags with those types.',
    technique='contract-based deductive verification (Verus): block contracts on verbatim statement ranges + function contracts on the accessors',
)
PROPS['C11'] = dict(
    level='proof', verus=['c11_clamp', 'c10_sign', 'c11_order', 'c20_timestamp', 'c06_add_data'],
    trusted_base=[A_TOOLS, A_EXTRACT, 'BLOCK contracts: the three clamping statements are verbatim statement ranges of prepare_data / build_and_sign wrapped into synthetic functions over their free variables (the clock reading `now` is a parameter); the enclosing functions are not verified'],
    assumptions=['claimed: the SECOND sentence ("no timestamp - build time, file modification times, signature creation time - is later than the source date") and, of the FIRST sentence, the one source of nondeterminism the property names: the user() / group() recommends entries are appended in the ASCENDING order of the sets\' contents, i.e. as a function of the builder state and not of a per-instance hash seed (unit c11_order: the set type is read from the declaring statements, a stand-in HashSet iterates in an arbitrary per-instance order, a stand-in BTreeSet in ascending order as std documents). Byte-identity of whole packages across processes (clock without source date, TZ, every other collection of the 750-line prepare_data) is relational over process environments and is NOT decided',
                 'R11: `<` on Timestamp is the order of the seconds (derived PartialOrd on the tuple struct)',
                 'that the clamped values are the ones written to the header / handed to sign_with_timestamp is glue outside the blocks; from there on the timestamp is followed: sign_with_timestamp hands exactly it to Signing::sign (unit c10_sign), and the first statements of the pgp Signer::sign (block c11_sig_creation_time, chrono / pgp types as stand-ins) put exactly it into the SignatureCreationTime subpacket; pgp serialising that subpacket faithfully is trusted'],
    explanation='For every clock reading and every file mtime: the recorded file mtime, RPMTAG_BUILDTIME and the signature timestamp are min(source date, value) when a source date is set (hence never later than it) and the value itself otherwise; the OpenPGP creation-time subpacket built by the pgp signer carries exactly the timestamp it is handed.',
    technique='contract-based deductive verification (Verus) of block contracts on verbatim statement ranges',
)
PROPS['C13'] = dict(
    level='proof', verus=['c13_vercmp', 'c13_evr'],
    trusted_base=[A_TOOLS, A_EXTRACT,
                  'the SPECIFICATION rpmvercmp (prelude/vercmp.rs) is my transcription of rpm lib/rpmvercmp.c: separators skipped, tilde, caret, digit / alphabetic segments, leftovers; three of its values are checked in spec_examples - its agreement with the C code is by reading, not by proof',
                  'A-STR: str::trim_start_matches(closure / char), strip_prefix(char), starts_with(closure), is_empty, len, cmp (lexicographic by bytes = by code points) and == with their documented meaning, as contracts of the helpers the calls are rewritten to; char::is_ascii_alphanumeric / is_ascii_digit / is_ascii_alphabetic by assumed specifications',
                  'the nested helper fn matching_contiguous (find / split_at / filter) is NOT verified: it is moved out of the body (R39) and declared with the contract "the longest non-empty run of characters satisfying the predicate, and the rest"'],
    assumptions=['byte lengths: digit runs are ASCII so their byte length is their length (axiom_byte_len: byte length >= character count, equal for ASCII); for the leftovers only emptiness matters',
                 "R5: Cow<'a, str> fields are modelled as String (only their text is used)"],
    explanation='compare_version_string (verbatim loop, three character-class closures verified against their classes) returns rpmvercmp(a, b) for ALL strings: loop invariant "the specification applied to the remaining parts equals the specification applied to the inputs", every return point and the two unreachable!() arms discharged. The specification itself is proved a total preorder (lemma_rpmvercmp_total_preorder: reflexive, mirror-symmetric, transitive, Equal is a congruence) by induction over the token structure. impl Ord for Evr / Nevra (verbatim) are the lexicographic combinations lex3(epoch-or-0, version, release) resp. lex3(name, evr, arch) over that comparison, and lemma_evr_total_preorder lifts the order laws to EVRs - now without hypothesis.',
    technique='contract-based deductive verification (Verus): the real comparison loop against a recursive specification of rpmvercmp, order laws proved on the specification',
)
PROPS['C09'] = dict(
    level='proof', verus=['c09_from_entries', 'c09_append', 'c09_lead', 'c09_blocks', 'c14_writers', 'c07_payload', 'c07_header', 'c16_offsets', 'c17_compressor', 'c06_files'],
    trusted_base=[A_TOOLS, A_EXTRACT, 'IndexData::append is proved on its verbatim body for data and stores of any size (unit c09_append; the two iterator chains d.iter().map(to_be_bytes) / d.iter().flat_map(to_be_bytes().to_vec()) are helper contracts: the big-endian bytes of the items in order - K:k_append_* check the same contract on the real function with the real iterators for small sizes); write_index contract proved in unit c14_writers',
                  'assumed std specification of slice::sort_by (permutation, no earlier element compares Greater than a later one)', 'A-UTF8: String::as_bytes is uninterpreted'],
    assumptions=['PARTIAL: decided are the header layout produced by Header::from_entries / create_region_tag (region tag + trailer, ascending tags, aligned in-range non-overlapping offsets, store = aligned concatenation), the 8-byte signature padding, the cpio 4-byte alignment arithmetic and the lead defaults. BLOCK contracts on verbatim statement ranges of PackageBuilder::prepare_data (the function as a whole is out of reach) cover the rpmlib() requirements per feature used (b2), the accumulation of the file-capabilities flag (b3) and the large-file entry framing (b4); Compressor::try_from builds the variant requested (c17). the large-file format is used exactly when the file sizes add up to more than u32::MAX, and the sizes are then 64-bit under LONGFILESIZES (blocks b13, b12 of unit c06_files). NOT covered: distinctness of emitted tags, non-zero counts, payload order = header order, how the zstd flag is derived',
                 'precondition of from_entries: the laid-out data fits i32 offsets (< 2 GiB) and fewer than 2^26 records - headers beyond that are not representable in the format'],
    explanation='Header::from_entries (verbatim, closure contract spliced on the comparator, `for record in &mut` desugared to an index loop): the result is wf, entry 0 is the region tag (BIN, count 16) pointing at a 16-byte trailer equal to ser_entry(region, 7, -16*(n+1), 16), the other entries are the input records sorted by ascending tag, each at the type-aligned end of its predecessors, and the store is exactly the aligned concatenation of the encoded data followed by the trailer; unbounded in record count and data size.',
)
PROPS['C20'] = dict(
    level='proof', verus=['c20_timestamp'],
    trusted_base=[A_TOOLS, A_EXTRACT, 'A-TIME: stand-in SystemTime / Duration / chrono::DateTime types whose duration_since, as_secs, with_timezone(&Utc), timestamp carry their DOCUMENTED contracts (an instant is secs*1e9+nanos with nanos < 1e9); std and chrono arithmetic itself is not executed (Kani did not finish on std Timespec arithmetic: DESIGN exp. 15)',
                  'vstd specifications of integer TryFrom (u64->u32, i64->u32), Result::map / map_err; assumed specification of Result::and_then'],
    assumptions=['closure contracts are spliced annotations on the verbatim closures (Verus closures are opaque without ensures)',
                 'Timestamp::now() unwrap (year >= 2106) is outside the property'],
    explanation='Verbatim bodies of TryFrom<SystemTime> and TryFrom<chrono::DateTime<TZ>> for Timestamp: with x the instant in whole seconds since the epoch (floor), the result is Ok(Timestamp(x)) iff 0 <= x < 2^32, Err(Underflow) iff x < 0 (including sub-second instants before the epoch), Err(Overflow) iff x >= 2^32, over the full domain of both types and every time zone; monotone on accepted instants; no panic obligations left.',
)

PROPS['C19'] = dict(
    level='proof', verus=['c19_caps'],
    trusted_base=[A_TOOLS, A_EXTRACT,
                  'A-STR: str::trim, split_whitespace, find([chars]), slicing at the found offset, chars(), starts_with(char), is_empty with their documented meaning, stated as contracts of helper functions the calls are rewritten to (R32); byte offsets and character indices are related by an abstract correspondence (offset 0 = character 0, the offset returned by find is a character boundary)',
                  'the CONTENT of the CAPS table (which names are known) and to_uppercase are not examined: known_cap(name) is an uninterpreted predicate; std str::split(",") and eq_ignore_ascii_case("all") are helper contracts'],
    assumptions=['PARTIAL: decided is the clause structure - the text is accepted EXACTLY WHEN it is non-empty after trimming and every whitespace-separated clause (std split_whitespace) contains an operator, starts with a name list unless the CLAUSE starts with "=", has a name list validate_capset accepts and a suffix over {=,+,-,e,i,p} without adjacent operators; accepted text is kept verbatim (FileCaps::new / from_str); no panic, the debug_assert! in validate_suffix included (it is a proved assertion under the precondition its only caller establishes). validate_capset: a name list is accepted exactly when it is empty, equals "all" ignoring ASCII case, or EVERY comma-separated piece - an empty one included - is a known capability name. NOT decided: which names the table knows',
                 'R33: debug_assert!(c) is rewritten to a proof obligation assert(c)',
                 'the error message strings are replaced by an arbitrary String (R12)'],
    explanation='Verbatim bodies of validate_caps_text, validate_suffix, FileCaps::new and FileCaps::from_str. validate_suffix(s) is Ok iff every character of s is an operator or a flag and no two operators are adjacent; validate_caps_text(s) is Ok iff trimmed(s) is non-empty and clause_ok holds for every token, where clause_ok is written from the statement (first operator position, name list before it unless the clause starts with "=", suffix after it). On the tree before e7d12cb both directions fail: "=e +p" was accepted and "cap_chown=e =p" rejected.',
    technique='contract-based deductive verification (Verus) of the capability-text validators against a clause grammar written from the statement, std str functions under assumed contracts',
)
PROPS['C12'] = dict(
    level='proof', verus=['c12_extract'],
    trusted_base=[A_TOOLS, A_EXTRACT,
                  'A-FS: a std::fs operation at a path that is the (freshly created) target followed by normal components only, none of whose prefixes is a symbolic link, takes effect inside the target - the operating system, no concurrent process interfering; std::fs and std::path calls themselves do not panic',
                  'A-PATH-COMP: std::path as component sequences: Path::components yields the components, PathBuf::push of a normal name appends it, Path::join appends a relative path (and REPLACES the base when given an absolute one: stated only for the all-normal case), Path::starts_with is the component-wise prefix test'],
    assumptions=['PARTIAL: decided is the SECOND sentence - for every package, hostile ones included (directory names, file paths, modes and link targets are arbitrary values here), every file-system operation of extract other than creating the target itself happens at target + normal components, never at or below a symbolic link this extraction has created (the program keeps a list of them, and the list is proved to cover every symlink call); paths with "..", a second root or a prefix component and unknown file types are errors; no panic (the former unreachable!() is gone). NOT decided: the FIRST sentence (every file, directory and link is created with the archived content, permission bits and target: file-system EFFECTS are not modelled), and what Package::files() yields (C07)',
                 'R38: each fs call is rewritten to carry two ghost arguments, the target and the sequence of symlink paths created so far (a ghost variable updated right after the symlink call); the containment requirement is the precondition of the stand-in',
                 'the error path text is an arbitrary String (R12)'],
    explanation='Verbatim bodies of Package::extract and relative_to_root. relative_to_root returns Ok exactly when every component is the root, "." or a normal name, and then a path of normal components only; extract joins the target with such a path (so join cannot replace the target), refuses any path at or below one of the links it has created, and only then calls create_dir_all / File::create / set_permissions / remove_file / symlink - each of which REQUIRES inside(target, created links, path). Loop invariant: the list of links the program keeps covers every symbolic link created.',
    technique='contract-based deductive verification (Verus): containment as the precondition of every std::fs stand-in, over a component-sequence model of std::path',
)
NOT_APPLICABLE = {
}
# properties not yet wired up are listed as not applicable until their check exists (kept current)
for _pid, _why in {
    'C01': 'check under construction', 'C02': 'check under construction', 'C03': 'check under construction',
    'C04': 'check under construction', 'C05': 'check under construction', 'C07': 'check under construction',
    'C08': 'check under construction', 'C09': 'check under construction', 'C10': 'check under construction',
    'C14': 'check under construction', 'C15': 'check under construction', 'C17': 'check under construction',
    'C20': 'check under construction',
}.items():
    if _pid not in PROPS:
        NOT_APPLICABLE[_pid] = _why
