// Kani harnesses attached to src/rpm/headers/lead.rs
use super::*;

/// K-LEAD-FIELDS: a 96-byte lead is accepted exactly when it starts with the rpm magic; every
/// field of the accepted value is the corresponding slice / big-endian word of the input.
#[kani::proof]
#[kani::unwind(100)]
fn k_lead_fields() {
    let b: [u8; 96] = kani::any();
    let good = b[0] == 0xed && b[1] == 0xab && b[2] == 0xee && b[3] == 0xdb;
    match Lead::parse(&b) {
        Ok(l) => {
            assert!(good);
            assert!(l.magic == RPM_MAGIC && RPM_MAGIC == [0xed, 0xab, 0xee, 0xdb]);
            assert!(l.major == b[4] && l.minor == b[5]);
            assert!(l.package_type == u16::from_be_bytes([b[6], b[7]]));
            assert!(l.arch == u16::from_be_bytes([b[8], b[9]]));
            let mut i = 0;
            while i < 66 {
                assert!(l.name[i] == b[10 + i]);
                i += 1;
            }
            assert!(l.os == u16::from_be_bytes([b[76], b[77]]));
            assert!(l.signature_type == u16::from_be_bytes([b[78], b[79]]));
            let mut j = 0;
            while j < 16 {
                assert!(l.reserved[j] == b[80 + j]);
                j += 1;
            }
            kani::cover!(true);
        }
        Err(e) => {
            assert!(!good);
            std::mem::forget(e);
        }
    }
}

fn check_new(name: &str) {
    let l = Lead::new(name);
    assert!(l.magic == [0xed, 0xab, 0xee, 0xdb]);
    assert!(l.major == 3 && l.minor == 0 && l.package_type == 0 && l.os == 1 && l.signature_type == 5);
    assert!(l.name[65] == 0);
    let n = if name.len() < 65 { name.len() } else { 65 };
    let mut i = 0;
    while i < 66 {
        if i < n {
            assert!(l.name[i] == name.as_bytes()[i]);
        } else {
            assert!(l.name[i] == 0);
        }
        i += 1;
    }
    let mut j = 0;
    while j < 16 {
        assert!(l.reserved[j] == 0);
        j += 1;
    }
}

/// K-LEAD-NEW (bounded): defaults of a freshly built lead.
#[kani::proof]
#[kani::unwind(100)]
fn k_lead_new() {
    check_new("abc");
    check_new("0123456789012345678901234567890123456789012345678901234567890123456789");
}
