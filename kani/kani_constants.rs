// Kani harnesses attached to src/constants.rs
use super::*;
use num_traits::FromPrimitive;

/// K-DIGEST-ALGO: DigestAlgorithm::from_u32 is exactly the map assumed in verus/prelude/crypto.rs
#[kani::proof]
fn k_digest_algo() {
    let n: u32 = kani::any();
    let want = match n {
        1 => Some(DigestAlgorithm::Md5),
        8 => Some(DigestAlgorithm::Sha2_256),
        9 => Some(DigestAlgorithm::Sha2_384),
        10 => Some(DigestAlgorithm::Sha2_512),
        11 => Some(DigestAlgorithm::Sha2_224),
        12 => Some(DigestAlgorithm::Sha3_256),
        14 => Some(DigestAlgorithm::Sha3_512),
        _ => None,
    };
    assert!(DigestAlgorithm::from_u32(n) == want);
}

/// K-TAG-VALUES: the numeric values of the tags named in verus/prelude/tags.rs
#[kani::proof]
fn k_tag_values() {
    assert!(IndexSignatureTag::HEADER_SIGNATURES.to_u32() == 62);
    assert!(IndexSignatureTag::RPMSIGTAG_SHA1.to_u32() == 269);
    assert!(IndexSignatureTag::RPMSIGTAG_MD5.to_u32() == 1004);
    assert!(IndexSignatureTag::RPMSIGTAG_DSA.to_u32() == 267);
    assert!(IndexSignatureTag::RPMSIGTAG_RSA.to_u32() == 268);
    assert!(IndexSignatureTag::RPMSIGTAG_OPENPGP.to_u32() == 278);
    assert!(IndexSignatureTag::RPMSIGTAG_PGP.to_u32() == 1002);
    assert!(IndexSignatureTag::RPMSIGTAG_SHA256.to_u32() == 273);
    assert!(IndexSignatureTag::RPMSIGTAG_SIZE.to_u32() == 1000);
    assert!(IndexSignatureTag::RPMSIGTAG_LONGSIZE.to_u32() == 270);
    assert!(IndexTag::RPMTAG_HEADERIMMUTABLE.to_u32() == 63);
    assert!(IndexTag::RPMTAG_SIZE.to_u32() == 1009);
    assert!(IndexTag::RPMTAG_LONGSIZE.to_u32() == 5009);
    assert!(IndexTag::RPMTAG_PAYLOADDIGEST.to_u32() == 5092);
    assert!(IndexTag::RPMTAG_PAYLOADDIGESTALGO.to_u32() == 5093);
    assert!(INDEX_HEADER_SIZE == 16 && INDEX_ENTRY_SIZE == 16 && LEAD_SIZE == 96);
}
