// Kani harnesses attached to src/constants.rs
use super::*;
use num_traits::FromPrimitive;

/// K-DIGEST-ALGO: DigestAlgorithm::from_u32 is exactly the map assumed in verus/prelude/crypto.rs
#[kani::proof]
fn k_digest_algo() {
    let n: u32 = kani::any();
    let want = match n {
        1 => Some(DigestAlgorithm::Md5),
        8 => Some(DigestAlgorithm::Sha2_256),
        9 => Some(DigestAlgorithm::Sha2_384),
        10 => Some(DigestAlgorithm::Sha2_512),
        11 => Some(DigestAlgorithm::Sha2_224),
        12 => Some(DigestAlgorithm::Sha3_256),
        14 => Some(DigestAlgorithm::Sha3_512),
        _ => None,
    };
    assert!(DigestAlgorithm::from_u32(n) == want);
}

/// K-TAG-VALUES: the numeric values of the tags named in verus/prelude/tags.rs
#[kani::proof]
fn k_tag_values() {
    assert!(IndexSignatureTag::HEADER_SIGNATURES.to_u32() == 62);
    assert!(IndexSignatureTag::RPMSIGTAG_SHA1.to_u32() == 269);
    assert!(IndexSignatureTag::RPMSIGTAG_MD5.to_u32() == 1004);
    assert!(IndexSignatureTag::RPMSIGTAG_DSA.to_u32() == 267);
    assert!(IndexSignatureTag::RPMSIGTAG_RSA.to_u32() == 268);
    assert!(IndexSignatureTag::RPMSIGTAG_OPENPGP.to_u32() == 278);
    assert!(IndexSignatureTag::RPMSIGTAG_PGP.to_u32() == 1002);
    assert!(IndexSignatureTag::RPMSIGTAG_SHA256.to_u32() == 273);
    assert!(IndexSignatureTag::RPMSIGTAG_SIZE.to_u32() == 1000);
    assert!(IndexSignatureTag::RPMSIGTAG_LONGSIZE.to_u32() == 270);
    assert!(IndexTag::RPMTAG_HEADERIMMUTABLE.to_u32() == 63);
    assert!(IndexTag::RPMTAG_SIZE.to_u32() == 1009);
    assert!(IndexTag::RPMTAG_NAME.to_u32() == 1000 && IndexTag::RPMTAG_VERSION.to_u32() == 1001);
    assert!(IndexTag::RPMTAG_RELEASE.to_u32() == 1002 && IndexTag::RPMTAG_EPOCH.to_u32() == 1003);
    assert!(IndexTag::RPMTAG_SUMMARY.to_u32() == 1004 && IndexTag::RPMTAG_DESCRIPTION.to_u32() == 1005);
    assert!(IndexTag::RPMTAG_BUILDTIME.to_u32() == 1006 && IndexTag::RPMTAG_BUILDHOST.to_u32() == 1007);
    assert!(IndexTag::RPMTAG_VENDOR.to_u32() == 1011 && IndexTag::RPMTAG_LICENSE.to_u32() == 1014);
    assert!(IndexTag::RPMTAG_PACKAGER.to_u32() == 1015 && IndexTag::RPMTAG_GROUP.to_u32() == 1016);
    assert!(IndexTag::RPMTAG_URL.to_u32() == 1020 && IndexTag::RPMTAG_ARCH.to_u32() == 1022);
    assert!(IndexTag::RPMTAG_SOURCERPM.to_u32() == 1044 && IndexTag::RPMTAG_COOKIE.to_u32() == 1094);
    assert!(IndexTag::RPMTAG_VCS.to_u32() == 5034);
    assert!(IndexTag::RPMTAG_LONGSIZE.to_u32() == 5009);
    assert!(IndexTag::RPMTAG_PAYLOADDIGEST.to_u32() == 5092);
    assert!(IndexTag::RPMTAG_PAYLOADDIGESTALGO.to_u32() == 5093);
    assert!(INDEX_HEADER_SIZE == 16 && INDEX_ENTRY_SIZE == 16 && LEAD_SIZE == 96);
}
