// Kani harness attached to src/rpm/signature/mod.rs
use super::*;

// `log::__private_api::loc()` is `Location::caller()`, which Kani does not support; the stub hands
// out a fixed location (the logger is the default no-op logger, nothing reads it for output).
static LOC_DATA: (&str, u32, u32) = ("kani", 1, 1);
fn loc_stub() -> &'static std::panic::Location<'static> {
    unsafe { std::mem::transmute::<&'static (&'static str, u32, u32), &'static std::panic::Location<'static>>(&LOC_DATA) }
}

/// K-ECHO-SIG: with debug logging enabled (so that the arguments of `log::debug!` are evaluated)
/// the helper never indexes past the signature, for every signature of length 0..=8.
#[kani::proof]
#[kani::unwind(10)]
#[kani::stub(log::__private_api::loc, loc_stub)]
fn k_echo_signature() {
    log::set_max_level(log::LevelFilter::Trace);
    let b: [u8; 8] = kani::any();
    let n: usize = kani::any();
    kani::assume(n <= 8);
    echo_signature("scope", &b[..n]);
    kani::cover!(n == 0);
}
