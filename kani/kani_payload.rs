// Kani harnesses attached to src/rpm/payload.rs (child module: sees private items).
use super::*;
use std::path::PathBuf;

fn fe(path: &str, size: usize) -> FileEntry {
    FileEntry {
        path: PathBuf::from(path),
        mode: crate::FileMode::regular(0o644),
        ownership: crate::FileOwnership { user: String::new(), group: String::new() },
        modified_at: crate::Timestamp(0),
        size,
        flags: crate::FileFlags::empty(),
        digest: None,
        caps: None,
        linkto: String::new(),
        ima_signature: None,
    }
}

/// K-READ-HEX (contract of `read_hex_u32` in unit c07_payload): on Ok exactly 8 bytes are consumed;
/// the value is the hexadecimal number they spell; fewer than 8 bytes is an error, never a panic.
#[kani::proof]
#[kani::unwind(12)]
fn k_read_hex_u32() {
    let b: [u8; 10] = kani::any();
    let n: usize = kani::any();
    kani::assume(n <= 10);
    let mut rd: &[u8] = &b[..n];
    match read_hex_u32(&mut rd) {
        Ok(v) => {
            assert!(n >= 8 && rd.len() == n - 8);
            let mut want: u32 = 0;
            let mut i = 0;
            while i < 8 {
                let c = b[i];
                let d = if c >= b'0' && c <= b'9' { c - b'0' } else if c >= b'a' && c <= b'f' { c - b'a' + 10 } else if c >= b'A' && c <= b'F' { c - b'A' + 10 } else { 255 };
                // from_str_radix also accepts a leading '+'
                if !(i == 0 && c == b'+') {
                    assert!(d < 16);
                    want = want * 16 + d as u32;
                }
                i += 1;
            }
            assert!(v == want);
        }
        Err(e) => std::mem::forget(e),
    }
}

fn stripped_reader(idx: u32) -> Reader<&'static [u8]> {
    Reader { inner: &[], entry: RpmPayloadEntry::Stripped(idx), file_size: 0, bytes_read: 0 }
}

/// K-FILE-ENTRY-INDEX, stripped entries (all u32 indexes, 2 header entries): Some(idx) iff in range.
#[kani::proof]
#[kani::unwind(6)]
fn k_file_entry_index_stripped() {
    let idx: u32 = kani::any();
    let entries = [fe("/a", 1), fe("/b", 2)];
    let r = stripped_reader(idx);
    match r.file_entry_index(&entries) {
        Some(i) => assert!(i == idx as usize && i < 2),
        None => assert!(idx as usize >= 2),
    }
    std::mem::forget(entries);
}

fn cpio_reader(name: &str) -> Reader<&'static [u8]> {
    Reader {
        inner: &[],
        entry: RpmPayloadEntry::Cpio(CpioEntry {
            entry_type: CpioEntryType::Newc,
            name: name.to_string(),
            ino: 0, mode: 0, uid: 0, gid: 0, nlink: 1, mtime: 0, file_size: 0,
            dev_major: 0, dev_minor: 0, rdev_major: 0, rdev_minor: 0, checksum: 0,
        }),
        file_size: 0,
        bytes_read: 0,
    }
}

/// K-FILE-ENTRY-INDEX, cpio entries (bounded: fixed names): the entry whose path equals the
/// archive name with its "./" or "/" prefix removed - wherever it sits in the header - or None.
#[kani::proof]
#[kani::unwind(12)]
fn k_file_entry_index_cpio() {
    let entries = [fe("/b/c", 1), fe("/a", 2), fe("d", 3)];
    assert!(cpio_reader("./a").file_entry_index(&entries) == Some(1));
    assert!(cpio_reader("./b/c").file_entry_index(&entries) == Some(0));
    assert!(cpio_reader("/a").file_entry_index(&entries) == Some(1));
    assert!(cpio_reader("a").file_entry_index(&entries) == Some(1));
    assert!(cpio_reader("d").file_entry_index(&entries) == Some(2));
    assert!(cpio_reader("./zz").file_entry_index(&entries) == None);
    assert!(cpio_reader("TRAILER!!!").file_entry_index(&entries) == None);
    // equality of the whole path, not of a suffix or a prefix of it (seed C07-c)
    assert!(cpio_reader("./c").file_entry_index(&entries) == None);
    assert!(cpio_reader("./b").file_entry_index(&entries) == None);
    std::mem::forget(entries);
}


/// K-STRIPPED-HEADER: the stripped entry header is 16 bytes: magic, 8 hex digits of the index, 2 NUL
/// (one concrete index: formatting a symbolic u32 is beyond CBMC here).
#[kani::proof]
#[kani::unwind(20)]
fn k_stripped_header() {
    let h = stripped_cpio_header(0x1234abcd);
    assert!(h.len() == 16);
    assert!(h[0..6] == *b"07070X" && h[6..14] == *b"1234abcd" && h[14] == 0 && h[15] == 0);
}
