"""Registry of Kani harnesses.  Each harness lives in a module file of /verif/kani that is
attached (cfg(kani) `mod` line appended at end of file, on the snapshot) to the source file
whose private items it needs.  `bounded` is None for complete proofs (loop-free or constant
trip count over the full symbolic domain) and a text stating the bound otherwise."""

ATTACH = {
    'kani_types.rs': 'src/rpm/headers/types.rs',
    'kani_header.rs': 'src/rpm/headers/header.rs',
    'kani_lead.rs': 'src/rpm/headers/lead.rs',
    'kani_payload.rs': 'src/rpm/payload.rs',
    'kani_compressor.rs': 'src/rpm/compressor.rs',
    'kani_timestamp.rs': 'src/rpm/timestamp.rs',
    'kani_sigmod.rs': 'src/rpm/signature/mod.rs',
    'kani_constants.rs': 'src/constants.rs',
    'kani_package.rs': 'src/rpm/package.rs',
    'kani_builder.rs': 'src/rpm/builder.rs',
}

MODPATH = {
    'kani_types.rs': 'rpm::headers::types',
    'kani_header.rs': 'rpm::headers::header',
    'kani_lead.rs': 'rpm::headers::lead',
    'kani_payload.rs': 'rpm::payload',
    'kani_compressor.rs': 'rpm::compressor',
    'kani_timestamp.rs': 'rpm::timestamp',
    'kani_sigmod.rs': 'rpm::signature',
    'kani_constants.rs': 'constants',
    'kani_package.rs': 'rpm::package',
    'kani_builder.rs': 'rpm::builder',
}


def full_name(h):
    import os
    return '%s::kani_verif_%s::%s' % (MODPATH[h['module']], os.path.splitext(h['module'])[0], h['name'])


def H(name, module, props, bounded=None, tier='quick', timeout=300, doc='', cargo_args=()):
    return dict(name=name, module=module, props=props, bounded=bounded, tier=tier, timeout=timeout, doc=doc,
                cargo_args=tuple(cargo_args))


HARNESSES = [
    H('k_path_semantics', 'kani_builder.rs', ['C06'], bounded='4 fixed paths (/a, /x/a, ./a, ./x/a)', timeout=900, doc='sanity link for A-PATH-SEM: std::path parent / file_name / strip_prefix(".") on clean destinations'),
    H('k_lead_fields', 'kani_lead.rs', ['C01', 'C04'], timeout=900, doc='all 96-byte leads: accepted iff magic ed ab ee db; every field is the corresponding input bytes; no panic (try_into().unwrap())'),
    H('k_lead_new', 'kani_lead.rs', ['C09'], bounded='name length <= 3 and 70 (two concrete lengths around the 65-byte cut)', timeout=600, doc='Lead::new: magic, major 3, type 0, os 1, signature type 5, NUL-terminated name'),
    # ---- C01 / C14 / C04 leaves on header.rs ------------------------------------------------
    H('k_be_link', 'kani_header.rs', ['C01', 'C14', 'C09'], doc='all u8/u16/u32/i32/u64: to_be_bytes equals the spec vocabulary be16/be32/be64 (links the Verus BeBytes contract to std)'),
    H('k_type_map', 'kani_header.rs', ['C01', 'C05'], doc='all u32: from_type_as_u32 / type_as_u32 inverse on 0..=9, None otherwise'),
    H('k_intro_fields', 'kani_header.rs', ['C01', 'C04'], timeout=600, doc='all 16-byte intros: accepted iff magic 8e ad e8 + version 1 (reserved bytes ignored); fields are the BE words'),
    H('k_entry_fields', 'kani_header.rs', ['C01', 'C04', 'C05'], timeout=900, doc='all 16-byte index entries: accepted iff type < 10; fields are the BE words; data empty with that type code; 16 bytes consumed'),
    H('k_take_till_nul', 'kani_header.rs', ['C01', 'C04', 'C05'], bounded='slice length <= 8', timeout=600, doc='real nom take_till(==0): never errors; head = bytes before first NUL; rest starts at it'),
    H('k_parse_binary_entry', 'kani_header.rs', ['C01', 'C04', 'C05'], bounded='slice length <= 8 (all u32 counts)', timeout=600, doc='Ok iff count <= len; appends exactly input[..count]; no panic'),
    H('k_dec_u16', 'kani_header.rs', ['C01', 'C04', 'C05'], bounded='slice length <= 8 (all u32 counts)', timeout=900, doc='parse_entry_data_number<u16>: Ok iff 2*count <= len; BE words; reserve <= input length'),
    H('k_dec_u32', 'kani_header.rs', ['C01', 'C04', 'C05'], bounded='slice length <= 12 (all u32 counts)', timeout=900, doc='parse_entry_data_number<u32>'),
    H('k_dec_u64', 'kani_header.rs', ['C01', 'C05'], bounded='slice length <= 16 (all u32 counts)', timeout=900, doc='parse_entry_data_number<u64>'),
    H('k_getters_binary', 'kani_header.rs', ['C05'], bounded='headers of 3 entries (symbolic tags, 10 data shapes)', timeout=900, doc='get_entry_data_as_binary: first entry with the tag, Ok iff Bin, TagNotFound iff absent'),
    H('k_getters_string', 'kani_header.rs', ['C05'], bounded='headers of 3 entries', timeout=900, doc='get_entry_data_as_string'),
    H('k_getters_string_array', 'kani_header.rs', ['C05'], bounded='headers of 3 entries', timeout=900, doc='get_entry_data_as_string_array (StringArray or I18NString)'),
    H('k_getters_u32', 'kani_header.rs', ['C05'], bounded='headers of 3 entries', timeout=900, doc='get_entry_data_as_u32: first element; Err on empty array or other type'),
    H('k_getters_u64', 'kani_header.rs', ['C05'], bounded='headers of 3 entries', timeout=900, doc='get_entry_data_as_u64'),
    H('k_entry_is_present', 'kani_header.rs', ['C05'], bounded='headers of 3 entries', timeout=900, doc='entry_is_present: true iff some entry carries the tag'),
    H('k_getters_i18n', 'kani_header.rs', ['C05', 'C04'], bounded='headers of 3 entries', timeout=900, doc='get_entry_data_as_i18n_string: first locale; Err (not panic) on an empty table'),
    H('k_digest_algo', 'kani_constants.rs', ['C03'], doc='all u32: DigestAlgorithm::from_u32 equals the 7-value map of the Verus prelude'),
    H('k_tag_values', 'kani_constants.rs', ['C03', 'C02', 'C05'], doc='numeric values of the tags named in the Verus prelude'),
    H('k_echo_signature', 'kani_sigmod.rs', ['C04', 'C02'], bounded='signature length <= 8', doc='echo_signature never indexes past the signature'),
    H('k_compression_names', 'kani_compressor.rs', ['C15'], doc='each of the 5 CompressionType values parses back from its own name'),
    H('k_append_int16', 'kani_header.rs', ['C09'], bounded='prior store length 1; 1 item (all values)', timeout=900, doc='IndexData::append Int16: 2-byte alignment, BE words, frame'),
    H('k_append_int32', 'kani_header.rs', ['C09'], bounded='prior store length 1; 1 item (all values)', timeout=900, doc='IndexData::append Int32: 4-byte alignment'),
    H('k_append_int64', 'kani_header.rs', ['C09'], bounded='prior store length 5; 1 item (all values)', timeout=900, doc='IndexData::append Int64: 8-byte alignment'),
    H('k_append_ints_aligned', 'kani_header.rs', ['C09'], bounded='already aligned prior store; 1-2 items', tier='thorough', timeout=1800, doc='IndexData::append Int16/32/64 on an aligned store: no padding'),
    H('k_append_bytes', 'kani_header.rs', ['C09'], bounded='fixed prior store lengths; 2 items (all values)', timeout=900, doc='IndexData::append Null/Char/Int8/Bin: verbatim, no alignment'),
    H('k_append_strings', 'kani_header.rs', ['C09'], bounded='fixed prior store lengths, fixed short strings', timeout=900, doc='IndexData::append String/StringArray/I18NString: NUL-terminated items'),
    H('k_read_hex_u32', 'kani_payload.rs', ['C07', 'C04'], bounded='streams of <= 10 bytes (all byte values)', timeout=900, doc='read_hex_u32: Ok consumes exactly 8 bytes and returns the hex number; short input is Err; no panic'),
    H('k_file_entry_index_stripped', 'kani_payload.rs', ['C07', 'C04'], bounded='2 header entries (all u32 indexes)', timeout=600, doc='Reader::file_entry_index for stripped entries: Some(idx) iff idx < len'),
    H('k_file_entry_index_cpio', 'kani_payload.rs', ['C07'], bounded='3 header entries, 9 fixed names', timeout=900, doc='Reader::file_entry_index for cpio entries: lookup by path, independent of position'),
    H('k_take_till_nul_long', 'kani_header.rs', ['C01', 'C04', 'C05'], bounded='slice length <= 16', tier='thorough', timeout=1800, doc='take_till(==0) at a larger bound'),
    H('k_parse_binary_entry_long', 'kani_header.rs', ['C01', 'C04', 'C05'], bounded='slice length <= 16 (all u32 counts)', tier='thorough', timeout=1800, doc='parse_binary_entry at a larger bound'),
    H('k_dec_u16_long', 'kani_header.rs', ['C01', 'C04', 'C05'], bounded='slice length <= 12 (all u32 counts)', tier='thorough', timeout=1800, doc='parse_entry_data_number<u16> at a larger bound'),
    H('k_stripped_header', 'kani_payload.rs', ['C07', 'C09'], bounded='one concrete file index', timeout=900, doc='stripped_cpio_header: 16 bytes = magic + 8 hex digits + 2 NUL'),
    H('k_entry_short', 'kani_header.rs', ['C04'], bounded='length 15', timeout=900, doc='an input one byte short of an index entry: Err, no panic'),
    H('k_entry_short_all', 'kani_header.rs', ['C04'], bounded='lengths 0, 3, 4, 8, 12', tier='thorough', timeout=1800, doc='inputs shorter than 16 bytes: Err, no panic'),
    H('k_write_index_sink_1byte', 'kani_header.rs', ['C14'], bounded='one sink: accepts 1 byte per call, never fails (all tag/offset/count values)', doc='counterexample twin of V:IndexEntry::write_index: Ok => exactly the 16 canonical bytes'),
    H('k_write_index_sink_fail5', 'kani_header.rs', ['C14'], bounded='one sink: 1 byte per call, fails at call 5', tier='thorough', timeout=900, doc='Err => the 5 accepted bytes are a prefix of the canonical bytes'),
    # ---- C18 -------------------------------------------------------------------------------
    H('k_filemode_u16', 'kani_types.rs', ['C18'], doc='all u16: from/raw_mode identity, parts recombine, classification, reason text'),
    H('k_filemode_i32', 'kani_types.rs', ['C18'], doc='all i32: out-of-range => Invalid + try_from_raw Err; in range == from(i as u16)'),
    H('k_filemode_try_from_raw', 'kani_types.rs', ['C18'], timeout=600, doc='all i32: try_from_raw is Err exactly for Invalid; Err for every out-of-range integer'),
    H('k_filemode_ctors', 'kani_types.rs', ['C18'], doc='all u16: regular/dir/symbolic_link mask to 12 bits'),
    H('k_filemode_into', 'kani_types.rs', ['C18'], doc='all u16: u16::from(m) == u32::from(m) as u16 == raw_mode'),
]
