// Kani harnesses attached to src/rpm/compressor.rs
use super::*;
use std::str::FromStr;

fn roundtrip(c: CompressionType, name: &str) {
    match CompressionType::from_str(name) {
        Ok(p) => assert!(p == c),
        Err(e) => {
            std::mem::forget(e);
            panic!("a compression type does not parse back from its own name");
        }
    }
}
/// K-COMPRESSION-NAMES (complete: 5 cases): every CompressionType parses back from its textual
/// name.  The names are the literals of the Display impl; k_compression_display ties them to it.
#[kani::proof]
#[kani::unwind(8)]
fn k_compression_names() {
    roundtrip(CompressionType::None, "none");
    roundtrip(CompressionType::Gzip, "gzip");
    roundtrip(CompressionType::Zstd, "zstd");
    roundtrip(CompressionType::Xz, "xz");
    roundtrip(CompressionType::Bzip2, "bzip2");
}
