// Kani harnesses attached to src/rpm/builder.rs (cfg(kani) only).
use std::path::{Path, PathBuf};

/// K-PATH-SEM (sanity link for the axioms A-PATH-SEM of unit c06_add_data; bounded: fixed paths):
/// on clean destinations std::path answers what the axioms say - parent of "<d>/<n>" is "<d>" (or "/"
/// directly under the root), file_name is "<n>", and strip_prefix(".") of ".<d>" is "<d>" without
/// its leading '/'.
#[kani::proof]
#[kani::unwind(12)]
fn k_path_semantics() {
    let pb = PathBuf::from("/a");
    assert!(pb.parent() == Some(Path::new("/")));
    assert!(pb.file_name().and_then(|n| n.to_str()) == Some("a"));
    let pb = PathBuf::from("/x/a");
    assert!(pb.parent() == Some(Path::new("/x")));
    assert!(pb.file_name().and_then(|n| n.to_str()) == Some("a"));
    let pb = PathBuf::from("./a");
    assert!(pb.parent().and_then(|p| p.to_str()) == Some("."));
    assert!(pb.parent().unwrap().strip_prefix(".").ok().and_then(|p| p.to_str()) == Some(""));
    let pb = PathBuf::from("./x/a");
    assert!(pb.parent().and_then(|p| p.to_str()) == Some("./x"));
    assert!(pb.parent().unwrap().strip_prefix(".").ok().and_then(|p| p.to_str()) == Some("x"));
    assert!(pb.file_name().and_then(|n| n.to_str()) == Some("a"));
}
