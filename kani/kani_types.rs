// Kani harnesses attached to src/rpm/headers/types.rs (child module: sees private items).
use super::*;

// C18 -- all loop-free over the full domain: complete proofs.
#[kani::proof]
fn k_filemode_u16() {
    let w: u16 = kani::any();
    let m = FileMode::from(w);
    assert!(m.raw_mode() == w);
    assert!(m.file_type() | m.permissions() == w);
    assert!(m.file_type() & m.permissions() == 0);
    assert!(m.file_type() == w & 0o170000);
    assert!(m.permissions() == w & 0o7777);
    let t = w & 0o170000;
    assert!(matches!(m, FileMode::Dir { .. }) == (t == 0o040000));
    assert!(matches!(m, FileMode::Regular { .. }) == (t == 0o100000));
    assert!(matches!(m, FileMode::SymbolicLink { .. }) == (t == 0o120000));
    if let FileMode::Invalid { raw_mode, reason } = m {
        assert!(raw_mode == w as i32);
        assert!(reason.len() == 17 && reason.as_bytes()[0] == b'u' && reason.as_bytes()[8] == b'f'); // "unknown file type"
        assert!(t != 0o040000 && t != 0o100000 && t != 0o120000);
    }
    kani::cover!(matches!(m, FileMode::Invalid { .. }));
    kani::cover!(matches!(m, FileMode::SymbolicLink { .. }));
}

#[kani::proof]
fn k_filemode_i32() {
    let i: i32 = kani::any();
    let m = FileMode::from(i);
    if i > u16::MAX as i32 || i < i16::MIN as i32 {
        match m {
            FileMode::Invalid { raw_mode, reason } => {
                assert!(raw_mode == i);
                assert!(reason.len() == 39 && reason.as_bytes()[0] == b'p'); // "provided integer is out of 16bit bounds"
            }
            _ => panic!("out-of-range integer accepted"),
        }
    } else {
        let n = FileMode::from(i as u16);
        assert!(m.raw_mode() == i as u16);
        assert!(std::mem::discriminant(&m) == std::mem::discriminant(&n));
        assert!(m.permissions() == n.permissions() && m.file_type() == n.file_type());
    }
    kani::cover!(i < 0 && !matches!(m, FileMode::Invalid { .. }));
    kani::cover!(i > 0xffff);
}

#[kani::proof]
fn k_filemode_try_from_raw() {
    let i: i32 = kani::any();
    let ok = match FileMode::try_from_raw(i) {
        Ok(_) => true,
        Err(e) => {
            std::mem::forget(e);
            false
        }
    };
    let m = FileMode::from(i);
    assert!(ok == !matches!(m, FileMode::Invalid { .. }));
    if i > u16::MAX as i32 || i < i16::MIN as i32 {
        assert!(!ok);
    }
}

#[kani::proof]
fn k_filemode_ctors() {
    let p: u16 = kani::any();
    assert!(FileMode::regular(p) == FileMode::Regular { permissions: p & 0o7777 });
    assert!(FileMode::dir(p) == FileMode::Dir { permissions: p & 0o7777 });
    assert!(FileMode::symbolic_link(p) == FileMode::SymbolicLink { permissions: p & 0o7777 });
    assert!(FileMode::regular(p).permissions() == p & 0o7777);
    assert!(FileMode::dir(p).permissions() == p & 0o7777);
    assert!(FileMode::symbolic_link(p).permissions() == p & 0o7777);
    assert!(FileMode::regular(p).file_type() == 0o100000);
    assert!(FileMode::dir(p).file_type() == 0o040000);
    assert!(FileMode::symbolic_link(p).file_type() == 0o120000);
}

#[kani::proof]
fn k_filemode_into() {
    let w: u16 = kani::any();
    let m = FileMode::from(w);
    let a: u16 = m.into();
    let b: u32 = m.into();
    assert!(a == w && b == w as u32 && b as u16 == m.raw_mode());
}
