// Kani harnesses attached to src/rpm/headers/header.rs (child module: sees private items).
// Discipline (DESIGN section 7): fixed-size sinks, never a growing Vec in a harness; every
// `Error` value is mem::forget-ed (the drop glue of io::Error is expensive for CBMC).
use super::*;

pub(crate) struct FixedSink<const N: usize> {
    pub buf: [u8; N],
    pub len: usize,
}
impl<const N: usize> FixedSink<N> {
    pub fn new() -> Self {
        FixedSink { buf: [0u8; N], len: 0 }
    }
}
impl<const N: usize> std::io::Write for FixedSink<N> {
    fn write(&mut self, b: &[u8]) -> std::io::Result<usize> {
        let mut i = 0;
        while i < b.len() {
            assert!(self.len < N, "harness sink too small");
            self.buf[self.len] = b[i];
            self.len += 1;
            i += 1;
        }
        Ok(b.len())
    }
    fn flush(&mut self) -> std::io::Result<()> {
        Ok(())
    }
}

/// An adversarial sink from the family the Verus proof quantifies over: accepts exactly one byte
/// per call and fails at call number `fail_at` (symbolic).  All buffer positions stay concrete,
/// which keeps CBMC cheap; the unbounded statement for ANY sink is the Verus obligation.
pub(crate) struct OneByteSink<const N: usize> {
    pub buf: [u8; N],
    pub len: usize,
    pub fail_at: usize,
}
impl<const N: usize> std::io::Write for OneByteSink<N> {
    fn write(&mut self, b: &[u8]) -> std::io::Result<usize> {
        if self.len == self.fail_at {
            return Err(std::io::Error::from(std::io::ErrorKind::Other));
        }
        if b.is_empty() {
            return Ok(0);
        }
        assert!(self.len < N, "harness sink too small");
        self.buf[self.len] = b[0];
        self.len += 1;
        Ok(1)
    }
    fn flush(&mut self) -> std::io::Result<()> {
        Ok(())
    }
}

// executable transliteration of the spec vocabulary of verus/prelude/serspec.rs (A-LEAF-LINK)
fn be16(x: u16) -> [u8; 2] {
    [(x / 0x100) as u8, (x % 0x100) as u8]
}
fn be32(x: u32) -> [u8; 4] {
    [(x / 0x1000000) as u8, ((x / 0x10000) % 0x100) as u8, ((x / 0x100) % 0x100) as u8, (x % 0x100) as u8]
}
fn i32_bits(x: i32) -> u32 {
    if x >= 0 { x as u32 } else { (x as i64 + 0x1_0000_0000i64) as u32 }
}

/// K-BE-LINK: the Verus prelude's contract for `to_be_bytes` (trait BeBytes) is what std does.
#[kani::proof]
fn k_be_link() {
    let a: u8 = kani::any();
    assert!(a.to_be_bytes() == [a]);
    let b: u16 = kani::any();
    assert!(b.to_be_bytes() == be16(b));
    let c: u32 = kani::any();
    assert!(c.to_be_bytes() == be32(c));
    let d: i32 = kani::any();
    assert!(d.to_be_bytes() == be32(i32_bits(d)));
    let e: u64 = kani::any();
    let eb = e.to_be_bytes();
    let hi = be32((e / 0x1_0000_0000) as u32);
    let lo = be32((e % 0x1_0000_0000) as u32);
    assert!(eb[0..4] == hi && eb[4..8] == lo);
}

/// K-TYPE-MAP: from_type_as_u32 / type_as_u32 are mutually inverse on 0..=9 and reject the rest.
#[kani::proof]
fn k_type_map() {
    let t: u32 = kani::any();
    match IndexData::from_type_as_u32(t) {
        Some(d) => {
            assert!(t < 10);
            assert!(d.type_as_u32() == t);
            assert!(d.num_items() == if t == 6 { 1 } else { 0 });
            std::mem::forget(d);
        }
        None => assert!(t >= 10),
    }
}

/// K-INTRO-FIELDS: a 16-byte intro is accepted exactly when magic = 8e ad e8 and version = 1 (no
/// other byte influences acceptance, in particular not the 4 reserved bytes); the accepted value
/// carries the canonical magic/version and the big-endian words of bytes 8..16.
/// This is the contract `IndexHeader::parse` has in the Verus composition (prelude/leaves.rs).
#[kani::proof]
#[kani::unwind(20)]
fn k_intro_fields() {
    let b: [u8; 16] = kani::any();
    let good = b[0] == 0x8e && b[1] == 0xad && b[2] == 0xe8 && b[3] == 1;
    match IndexHeader::parse(&b) {
        Ok(h) => {
            assert!(good);
            assert!(h.num_entries == u32::from_be_bytes([b[8], b[9], b[10], b[11]]));
            assert!(h.data_section_size == u32::from_be_bytes([b[12], b[13], b[14], b[15]]));
            assert!(h.magic == HEADER_MAGIC && h.version == 1);
            assert!(HEADER_MAGIC == [0x8e, 0xad, 0xe8]);
            kani::cover!(true);
        }
        Err(e) => {
            assert!(!good);
            std::mem::forget(e);
        }
    }
}

/// K-ENTRY-FIELDS: a 16-byte index entry is accepted exactly when its type code is < 10; the
/// accepted value carries the big-endian words of the input, its data variant has that type
/// code and is empty, and all 16 bytes are consumed.
#[kani::proof]
#[kani::unwind(20)]
fn k_entry_fields() {
    let b: [u8; 16] = kani::any();
    let ty = u32::from_be_bytes([b[4], b[5], b[6], b[7]]);
    match IndexEntry::<IndexTag>::parse(&b) {
        Ok((rest, e)) => {
            assert!(rest.is_empty());
            assert!(e.tag == u32::from_be_bytes([b[0], b[1], b[2], b[3]]));
            assert!(ty < 10 && e.data.type_as_u32() == ty);
            assert!(e.offset == i32::from_be_bytes([b[8], b[9], b[10], b[11]]));
            assert!(e.num_items == u32::from_be_bytes([b[12], b[13], b[14], b[15]]));
            let empty = match &e.data {
                IndexData::Null => true,
                IndexData::Char(v) | IndexData::Int8(v) | IndexData::Bin(v) => v.is_empty(),
                IndexData::Int16(v) => v.is_empty(),
                IndexData::Int32(v) => v.is_empty(),
                IndexData::Int64(v) => v.is_empty(),
                IndexData::StringTag(s) => s.is_empty(),
                IndexData::StringArray(v) | IndexData::I18NString(v) => v.is_empty(),
            };
            assert!(empty);
            std::mem::forget(e);
            kani::cover!(true);
        }
        Err(er) => {
            assert!(ty >= 10);
            std::mem::forget(er);
        }
    }
}

/// K-ENTRY-SHORT: fewer than 16 bytes is an error, never a panic (C04).  Lengths 0, 3, 4, 8, 12, 15:
/// one below / at every field boundary.
fn entry_short(n: usize) {
    let b: [u8; 15] = kani::any();
    match IndexEntry::<IndexTag>::parse(&b[..n]) {
        Ok((_, e)) => {
            std::mem::forget(e);
            panic!("short entry accepted");
        }
        Err(er) => std::mem::forget(er),
    }
}
#[kani::proof]
#[kani::unwind(20)]
fn k_entry_short() {
    entry_short(15);
}
#[kani::proof]
#[kani::unwind(20)]
fn k_entry_short_all() {
    entry_short(0);
    entry_short(3);
    entry_short(4);
    entry_short(8);
    entry_short(12);
}

/// K-WRITE-INDEX-SINK (C14), bounded twin of the Verus obligation IndexEntry::write_index (which
/// is proved for ANY sink): against the one-byte-per-call sink, Ok(()) means exactly the 16
/// canonical bytes were accepted; Err means a prefix of them.  Serves as the concrete
/// counterexample generator when the Verus obligation fails.
fn write_index_against(fail_at: usize) {
    let tag: u32 = kani::any();
    let off: i32 = kani::any();
    let cnt: u32 = kani::any();
    let e = IndexEntry::<IndexTag> {
        tag,
        data: IndexData::Int32(Vec::new()),
        offset: off,
        num_items: cnt,
        entry_type: PhantomData,
    };
    let mut want = [0u8; 16];
    want[0..4].copy_from_slice(&be32(tag));
    want[4..8].copy_from_slice(&be32(4));
    want[8..12].copy_from_slice(&be32(i32_bits(off)));
    want[12..16].copy_from_slice(&be32(cnt));
    let mut s = OneByteSink::<16> { buf: [0u8; 16], len: 0, fail_at };
    let r = e.write_index(&mut s);
    let ok = match r {
        Ok(()) => true,
        Err(er) => {
            std::mem::forget(er);
            false
        }
    };
    if ok {
        assert!(s.len == 16, "Ok(()) but fewer than 16 bytes were accepted by the sink");
    } else {
        assert!(s.len == fail_at);
    }
    assert!(s.len <= 16);
    let mut i = 0;
    while i < 16 {
        if i < s.len {
            assert!(s.buf[i] == want[i]);
        }
        i += 1;
    }
    std::mem::forget(e);
}

#[kani::proof]
#[kani::unwind(20)]
fn k_write_index_sink_1byte() {
    write_index_against(usize::MAX);
}

#[kani::proof]
#[kani::unwind(20)]
fn k_write_index_sink_fail5() {
    write_index_against(5);
}

// ---- decode helper leaves (contracts used by the Verus unit c01_parse via prelude/decode.rs) ----
fn format_stub(_a: std::fmt::Arguments<'_>) -> String {
    String::new()
}

/// K-TAKE-TILL-NUL: real nom `complete::take_till(|b| b == 0)` on every slice of length 0..=8:
/// never errors; the head is the bytes before the first NUL, the rest starts at that NUL.
#[kani::proof]
#[kani::unwind(12)]
fn k_take_till_nul() {
    let b: [u8; 8] = kani::any();
    let n: usize = kani::any();
    kani::assume(n <= 8);
    let s = &b[..n];
    let r: nom::IResult<&[u8], &[u8], (&[u8], nom::error::ErrorKind)> = complete::take_till(|item| item == 0)(s);
    match r {
        Ok((rest, head)) => {
            let mut k = 0;
            while k < n && s[k] != 0 {
                k += 1;
            }
            assert!(head.len() == k && rest.len() == n - k);
            assert!(head.as_ptr() == s.as_ptr());
            assert!(rest.as_ptr() == s[k..].as_ptr());
        }
        Err(e) => {
            std::mem::forget(e);
            panic!("take_till failed");
        }
    }
}

/// K-PARSE-BINARY-ENTRY: Ok iff count <= len; on Ok exactly input[..count] is appended.
#[kani::proof]
#[kani::unwind(12)]
#[kani::stub(alloc::fmt::format, format_stub)]
fn k_parse_binary_entry() {
    let b: [u8; 8] = kani::any();
    let n: usize = kani::any();
    kani::assume(n <= 8);
    let cnt: u32 = kani::any();
    let mut items: Vec<u8> = Vec::new();
    match parse_binary_entry(&b[..n], cnt, &mut items, "Bin") {
        Ok(()) => {
            assert!(cnt as usize <= n);
            assert!(items.len() == cnt as usize);
            let mut i = 0;
            while i < 8 {
                if i < cnt as usize {
                    assert!(items[i] == b[i]);
                }
                i += 1;
            }
            kani::cover!(cnt == 3);
        }
        Err(e) => {
            assert!(cnt as usize > n);
            std::mem::forget(e);
        }
    }
    std::mem::forget(items);
}

type NomE<'a> = (&'a [u8], nom::error::ErrorKind);

/// K-DEC-U16 (bounded: slice length <= 8): Ok iff 2*count <= len; items are the BE words; the
/// reserve request never exceeds what the input can supply (C04 allocation clause).
#[kani::proof]
#[kani::unwind(10)]
fn k_dec_u16() {
    let b: [u8; 8] = kani::any();
    let n: usize = kani::any();
    kani::assume(n <= 8);
    let cnt: u32 = kani::any();
    let mut items: Vec<u16> = Vec::new();
    let r: nom::IResult<&[u8], (), NomE> = parse_entry_data_number(&b[..n], cnt, &mut items, be_u16);
    match r {
        Ok((rest, ())) => {
            assert!(2 * (cnt as usize) <= n);
            assert!(items.len() == cnt as usize && rest.len() == n - 2 * cnt as usize);
            let mut i = 0;
            while i < 4 {
                if i < cnt as usize {
                    assert!(items[i] == u16::from_be_bytes([b[2 * i], b[2 * i + 1]]));
                }
                i += 1;
            }
        }
        Err(e) => {
            assert!(2 * (cnt as u64) > n as u64);
            std::mem::forget(e);
        }
    }
    assert!(items.capacity() <= 8);
    std::mem::forget(items);
}

#[kani::proof]
#[kani::unwind(10)]
fn k_dec_u32() {
    let b: [u8; 12] = kani::any();
    let n: usize = kani::any();
    kani::assume(n <= 12);
    let cnt: u32 = kani::any();
    let mut items: Vec<u32> = Vec::new();
    let r: nom::IResult<&[u8], (), NomE> = parse_entry_data_number(&b[..n], cnt, &mut items, be_u32);
    match r {
        Ok((rest, ())) => {
            assert!(4 * (cnt as usize) <= n);
            assert!(items.len() == cnt as usize && rest.len() == n - 4 * cnt as usize);
            let mut i = 0;
            while i < 3 {
                if i < cnt as usize {
                    assert!(items[i] == u32::from_be_bytes([b[4 * i], b[4 * i + 1], b[4 * i + 2], b[4 * i + 3]]));
                }
                i += 1;
            }
        }
        Err(e) => {
            assert!(4 * (cnt as u64) > n as u64);
            std::mem::forget(e);
        }
    }
    assert!(items.capacity() <= 12);
    std::mem::forget(items);
}

#[kani::proof]
#[kani::unwind(10)]
fn k_dec_u64() {
    let b: [u8; 16] = kani::any();
    let n: usize = kani::any();
    kani::assume(n <= 16);
    let cnt: u32 = kani::any();
    let mut items: Vec<u64> = Vec::new();
    let r: nom::IResult<&[u8], (), NomE> = parse_entry_data_number(&b[..n], cnt, &mut items, be_u64);
    match r {
        Ok((rest, ())) => {
            assert!(8 * (cnt as usize) <= n);
            assert!(items.len() == cnt as usize && rest.len() == n - 8 * cnt as usize);
            let mut i = 0;
            while i < 2 {
                if i < cnt as usize {
                    let hi = u32::from_be_bytes([b[8 * i], b[8 * i + 1], b[8 * i + 2], b[8 * i + 3]]) as u64;
                    let lo = u32::from_be_bytes([b[8 * i + 4], b[8 * i + 5], b[8 * i + 6], b[8 * i + 7]]) as u64;
                    assert!(items[i] == hi * 0x1_0000_0000 + lo);
                }
                i += 1;
            }
        }
        Err(e) => {
            assert!(8 * (cnt as u64) > n as u64);
            std::mem::forget(e);
        }
    }
    assert!(items.capacity() <= 16);
    std::mem::forget(items);
}

// ---- typed getters (contracts of verus/prelude/getters.rs) --------------------------------------
fn mk_data(kind: u8, x: u8) -> IndexData {
    match kind {
        0 => IndexData::Null,
        1 => IndexData::Bin(vec![x, 7]),
        2 => IndexData::StringTag(String::from("s")),
        3 => IndexData::StringArray(vec![String::from("a")]),
        4 => IndexData::I18NString(vec![String::from("i")]),
        5 => IndexData::Int32(vec![x as u32 + 1000, 5]),
        6 => IndexData::Int64(vec![x as u64 + 5000]),
        7 => IndexData::Int32(Vec::new()),
        8 => IndexData::I18NString(Vec::new()),
        _ => IndexData::Int16(vec![x as u16]),
    }
}
fn mk_header(tags: [u32; 3], kinds: [u8; 3], xs: [u8; 3]) -> Header<IndexSignatureTag> {
    let mut entries = Vec::with_capacity(3);
    let mut i = 0;
    while i < 3 {
        let data = mk_data(kinds[i], xs[i]);
        entries.push(IndexEntry::<IndexSignatureTag> {
            tag: tags[i],
            num_items: data.num_items(),
            data,
            offset: 0,
            entry_type: PhantomData,
        });
        i += 1;
    }
    Header { index_header: IndexHeader::new(3, 0), index_entries: entries, store: Vec::new() }
}
fn first_with(tags: &[u32; 3], t: u32) -> usize {
    if tags[0] == t { 0 } else if tags[1] == t { 1 } else if tags[2] == t { 2 } else { 3 }
}
fn string_stub(_a: std::fmt::Arguments<'_>) -> String {
    String::new()
}
fn sym_header() -> ([u32; 3], [u8; 3], [u8; 3], Header<IndexSignatureTag>) {
    let tags: [u32; 3] = kani::any();
    let kinds: [u8; 3] = kani::any();
    kani::assume(kinds[0] <= 9 && kinds[1] <= 9 && kinds[2] <= 9);
    let xs: [u8; 3] = kani::any();
    let h = mk_header(tags, kinds, xs);
    (tags, kinds, xs, h)
}

/// K-GETTERS (bounded: 3 entries): each typed getter returns the data of the FIRST entry carrying
/// the tag iff its variant is the requested one; TagNotFound when absent; never panics.
#[kani::proof]
#[kani::unwind(6)]
fn k_getters_binary() {
    let (tags, kinds, xs, h) = sym_header();
    let i = first_with(&tags, 1004);
    match h.get_entry_data_as_binary(IndexSignatureTag::RPMSIGTAG_MD5) {
        Ok(d) => {
            assert!(i < 3 && kinds[i] == 1);
            assert!(d.len() == 2 && d[0] == xs[i] && d[1] == 7);
        }
        Err(e) => {
            assert!(i == 3 || kinds[i] != 1);
            assert!(matches!(e, Error::TagNotFound(_)) == (i == 3));
            std::mem::forget(e);
        }
    }
    std::mem::forget(h);
}
#[kani::proof]
#[kani::unwind(6)]
fn k_getters_string() {
    let (tags, kinds, _xs, h) = sym_header();
    let i = first_with(&tags, 273);
    match h.get_entry_data_as_string(IndexSignatureTag::RPMSIGTAG_SHA256) {
        Ok(d) => {
            assert!(i < 3 && kinds[i] == 2);
            assert!(d.len() == 1 && d.as_bytes()[0] == b's');
        }
        Err(e) => {
            assert!(i == 3 || kinds[i] != 2);
            assert!(matches!(e, Error::TagNotFound(_)) == (i == 3));
            std::mem::forget(e);
        }
    }
    std::mem::forget(h);
}
#[kani::proof]
#[kani::unwind(6)]
fn k_getters_string_array() {
    let (tags, kinds, _xs, h) = sym_header();
    let i = first_with(&tags, 278);
    match h.get_entry_data_as_string_array(IndexSignatureTag::RPMSIGTAG_OPENPGP) {
        Ok(d) => {
            assert!(i < 3 && (kinds[i] == 3 || kinds[i] == 4 || kinds[i] == 8));
            assert!(d.len() == if kinds[i] == 8 { 0 } else { 1 });
        }
        Err(e) => {
            assert!(i == 3 || !(kinds[i] == 3 || kinds[i] == 4 || kinds[i] == 8));
            assert!(matches!(e, Error::TagNotFound(_)) == (i == 3));
            std::mem::forget(e);
        }
    }
    std::mem::forget(h);
}
#[kani::proof]
#[kani::unwind(6)]
fn k_getters_u32() {
    let (tags, kinds, xs, h) = sym_header();
    let i = first_with(&tags, 1000);
    match h.get_entry_data_as_u32(IndexSignatureTag::RPMSIGTAG_SIZE) {
        Ok(d) => {
            assert!(i < 3 && kinds[i] == 5 && d == xs[i] as u32 + 1000);
        }
        Err(e) => {
            assert!(i == 3 || kinds[i] != 5);
            std::mem::forget(e);
        }
    }
    std::mem::forget(h);
}
#[kani::proof]
#[kani::unwind(6)]
fn k_getters_u64() {
    let (tags, kinds, xs, h) = sym_header();
    let j = first_with(&tags, 270);
    match h.get_entry_data_as_u64(IndexSignatureTag::RPMSIGTAG_LONGSIZE) {
        Ok(d) => {
            assert!(j < 3 && kinds[j] == 6 && d == xs[j] as u64 + 5000);
        }
        Err(e) => {
            assert!(j == 3 || kinds[j] != 6);
            std::mem::forget(e);
        }
    }
    std::mem::forget(h);
}
/// K-ENTRY-IS-PRESENT (bounded: 3 entries): true iff some entry carries the tag
#[kani::proof]
#[kani::unwind(6)]
fn k_entry_is_present() {
    let (tags, _kinds, _xs, h) = sym_header();
    let i = first_with(&tags, 278);
    assert!(h.entry_is_present(IndexSignatureTag::RPMSIGTAG_OPENPGP) == (i < 3));
    std::mem::forget(h);
}
#[kani::proof]
#[kani::unwind(6)]
fn k_getters_i18n() {
    let (tags, kinds, _xs, h) = sym_header();
    let i = first_with(&tags, 1004);
    match h.get_entry_data_as_i18n_string(IndexSignatureTag::RPMSIGTAG_MD5) {
        Ok(d) => {
            assert!(i < 3 && kinds[i] == 4);
            assert!(d.len() == 1 && d.as_bytes()[0] == b'i');
        }
        Err(e) => {
            assert!(i == 3 || kinds[i] != 4);
            std::mem::forget(e);
        }
    }
    std::mem::forget(h);
}

// ---- IndexData::append (contract of the Verus unit c09_from_entries) ----------------------------
fn check_append(d: &IndexData, prior: usize, align: usize, enc: &[u8]) {
    let mut store: Vec<u8> = Vec::with_capacity(32);
    let mut i = 0;
    while i < prior {
        store.push(0xAA);
        i += 1;
    }
    let r = d.append(&mut store) as usize;
    let want_pad = (align - prior % align) % align;
    assert!(r == want_pad);
    assert!(store.len() == prior + want_pad + enc.len());
    let mut k = 0;
    while k < store.len() {
        if k < prior {
            assert!(store[k] == 0xAA); // nothing before the old end changes
        } else if k < prior + want_pad {
            assert!(store[k] == 0);
        } else {
            assert!(store[k] == enc[k - prior - want_pad]);
        }
        k += 1;
    }
}
/// K-APPEND (bounded: prior store lengths 0, 1, 3, 5; 1-2 items): returned alignment makes the
/// data start type-aligned, the appended bytes are the big-endian / NUL-terminated encoding,
/// nothing before the old end changes.
// The integer arms go through `iter().flat_map(|i| i.to_be_bytes().to_vec())`, which is costly for
// CBMC: straight-line harnesses with one item and a fixed misaligned prior length.
#[kani::proof]
#[kani::unwind(6)]
fn k_append_int16() {
    let a: u16 = kani::any();
    let mut store: Vec<u8> = Vec::with_capacity(8);
    store.push(0xAA);
    let r = IndexData::Int16(vec![a]).append(&mut store);
    let e = a.to_be_bytes();
    assert!(r == 1);
    assert!(store.len() == 4 && store[0] == 0xAA && store[1] == 0 && store[2] == e[0] && store[3] == e[1]);
}
#[kani::proof]
#[kani::unwind(6)]
fn k_append_int32() {
    let a: u32 = kani::any();
    let mut store: Vec<u8> = Vec::with_capacity(8);
    store.push(0xAA);
    let r = IndexData::Int32(vec![a]).append(&mut store);
    let e = a.to_be_bytes();
    assert!(r == 3);
    assert!(store.len() == 8 && store[0] == 0xAA && store[1] == 0 && store[2] == 0 && store[3] == 0);
    assert!(store[4] == e[0] && store[5] == e[1] && store[6] == e[2] && store[7] == e[3]);
}
#[kani::proof]
#[kani::unwind(10)]
fn k_append_int64() {
    let a: u64 = kani::any();
    let mut store: Vec<u8> = Vec::with_capacity(16);
    store.push(0xAA);
    store.push(0xAA);
    store.push(0xAA);
    store.push(0xAA);
    store.push(0xAA);
    let r = IndexData::Int64(vec![a]).append(&mut store);
    let e = a.to_be_bytes();
    assert!(r == 3);
    assert!(store.len() == 16 && store[4] == 0xAA && store[5] == 0 && store[6] == 0 && store[7] == 0);
    assert!(store[8] == e[0] && store[9] == e[1] && store[10] == e[2] && store[11] == e[3]);
    assert!(store[12] == e[4] && store[13] == e[5] && store[14] == e[6] && store[15] == e[7]);
}
#[kani::proof]
#[kani::unwind(10)]
fn k_append_ints_aligned() {
    let a: u16 = kani::any();
    let mut store: Vec<u8> = Vec::with_capacity(8);
    store.push(0xAA);
    store.push(0xAA);
    let r = IndexData::Int16(vec![a, a]).append(&mut store);
    let e = a.to_be_bytes();
    assert!(r == 0 && store.len() == 6 && store[2] == e[0] && store[3] == e[1] && store[4] == e[0] && store[5] == e[1]);
    let c: u64 = kani::any();
    let mut s2: Vec<u8> = Vec::with_capacity(8);
    let r2 = IndexData::Int64(vec![c]).append(&mut s2);
    let f = c.to_be_bytes();
    assert!(r2 == 0 && s2.len() == 8 && s2[0] == f[0] && s2[7] == f[7]);
}
#[kani::proof]
#[kani::unwind(12)]
fn k_append_bytes() {
    let a: u8 = kani::any();
    let b: u8 = kani::any();
    check_append(&IndexData::Bin(vec![a, b]), 1, 1, &[a, b]);
    check_append(&IndexData::Char(vec![a, b]), 3, 1, &[a, b]);
    check_append(&IndexData::Int8(vec![a, b]), 0, 1, &[a, b]);
    check_append(&IndexData::Null, 5, 1, &[]);
}
#[kani::proof]
#[kani::unwind(12)]
fn k_append_strings() {
    check_append(&IndexData::StringTag(String::from("ab")), 1, 1, &[b'a', b'b', 0]);
    check_append(&IndexData::StringArray(vec![String::from("a"), String::from("")]), 3, 1, &[b'a', 0, 0]);
    check_append(&IndexData::I18NString(vec![String::from("x"), String::from("yz")]), 0, 1, &[b'x', 0, b'y', b'z', 0]);
}

// ---- thorough tier: the same leaf contracts at larger bounds -----------------------------------
#[kani::proof]
#[kani::unwind(20)]
fn k_take_till_nul_long() {
    let b: [u8; 16] = kani::any();
    let n: usize = kani::any();
    kani::assume(n <= 16);
    let s = &b[..n];
    let r: nom::IResult<&[u8], &[u8], (&[u8], nom::error::ErrorKind)> = complete::take_till(|item| item == 0)(s);
    match r {
        Ok((rest, head)) => {
            let mut k = 0;
            while k < n && s[k] != 0 {
                k += 1;
            }
            assert!(head.len() == k && rest.len() == n - k);
            assert!(head.as_ptr() == s.as_ptr());
        }
        Err(e) => {
            std::mem::forget(e);
            panic!("take_till failed");
        }
    }
}
#[kani::proof]
#[kani::unwind(20)]
#[kani::stub(alloc::fmt::format, format_stub)]
fn k_parse_binary_entry_long() {
    let b: [u8; 16] = kani::any();
    let n: usize = kani::any();
    kani::assume(n <= 16);
    let cnt: u32 = kani::any();
    let mut items: Vec<u8> = Vec::new();
    match parse_binary_entry(&b[..n], cnt, &mut items, "Bin") {
        Ok(()) => {
            assert!(cnt as usize <= n && items.len() == cnt as usize);
            let mut i = 0;
            while i < 16 {
                if i < cnt as usize {
                    assert!(items[i] == b[i]);
                }
                i += 1;
            }
        }
        Err(e) => {
            assert!(cnt as usize > n);
            std::mem::forget(e);
        }
    }
    std::mem::forget(items);
}
#[kani::proof]
#[kani::unwind(10)]
fn k_dec_u16_long() {
    let b: [u8; 12] = kani::any();
    let n: usize = kani::any();
    kani::assume(n <= 12);
    let cnt: u32 = kani::any();
    let mut items: Vec<u16> = Vec::new();
    let r: nom::IResult<&[u8], (), NomE> = parse_entry_data_number(&b[..n], cnt, &mut items, be_u16);
    match r {
        Ok((rest, ())) => {
            assert!(2 * (cnt as usize) <= n);
            assert!(items.len() == cnt as usize && rest.len() == n - 2 * cnt as usize);
            let mut i = 0;
            while i < 6 {
                if i < cnt as usize {
                    assert!(items[i] == u16::from_be_bytes([b[2 * i], b[2 * i + 1]]));
                }
                i += 1;
            }
        }
        Err(e) => {
            assert!(2 * (cnt as u64) > n as u64);
            std::mem::forget(e);
        }
    }
    assert!(items.capacity() <= 12);
    std::mem::forget(items);
}
